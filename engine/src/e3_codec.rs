//! E3 `codecgrid` — the four codecs (client v4, client v5, broker v4, broker v5),
//! bounded-exhaustively: C04 (round trip, sizes, client<->broker interoperability) and
//! C05 (decoders total, bounded, chunking-independent on arbitrary bytes).
use crate::vcore::evidence::Evidence;
use crate::vcore::findings::Reporter;
use crate::vcore::{catch, Tier, Violation};
use bytes::{Bytes, BytesMut};
use rayon::prelude::*;
use rumqttc::mqttbytes as c4b;
use rumqttc::mqttbytes::v4 as c4;
use rumqttc::v5::mqttbytes as c5b;
use rumqttc::v5::mqttbytes::v5 as c5;
use rumqttd::protocol::{self as bp, Protocol};
use serde_json::json;
use std::sync::atomic::{AtomicU64, Ordering};

// ------------------------------------------------------------------------------------
// decoders behind one interface
// ------------------------------------------------------------------------------------

#[derive(Clone, Copy, Debug, PartialEq, Eq)]
pub enum Codec {
    C4,
    C5,
    B4,
    B5,
}

pub const CODECS: [Codec; 4] = [Codec::C4, Codec::C5, Codec::B4, Codec::B5];

#[derive(Debug, Clone, PartialEq)]
pub enum Dec {
    /// debug rendering of the packet (comparison key)
    Packet(String),
    NeedMore(usize),
    Malformed(String),
}

impl Codec {
    pub fn name(self) -> &'static str {
        match self {
            Codec::C4 => "rumqttc v4",
            Codec::C5 => "rumqttc v5",
            Codec::B4 => "rumqttd v4",
            Codec::B5 => "rumqttd v5",
        }
    }

    /// One decode attempt on `buf` (consumes from it on success), panics caught.
    pub fn decode(self, buf: &mut BytesMut, max: usize) -> Result<Dec, String> {
        catch(|| match self {
            Codec::C4 => match c4::Packet::read(buf, max) {
                Ok(p) => Dec::Packet(format!("{p:?}")),
                Err(c4b::Error::InsufficientBytes(n)) => Dec::NeedMore(n),
                Err(e) => Dec::Malformed(format!("{e:?}")),
            },
            Codec::C5 => match c5::Packet::read(buf, Some(max.min(u32::MAX as usize) as u32)) {
                Ok(p) => Dec::Packet(format!("{p:?}")),
                Err(c5b::Error::InsufficientBytes(n)) => Dec::NeedMore(n),
                Err(e) => Dec::Malformed(format!("{e:?}")),
            },
            Codec::B4 => match bp::v4::V4.read_mut(buf, max) {
                Ok(p) => Dec::Packet(format!("{p:?}")),
                Err(bp::Error::InsufficientBytes(n)) => Dec::NeedMore(n),
                Err(e) => Dec::Malformed(format!("{e:?}")),
            },
            Codec::B5 => match bp::v5::V5.read_mut(buf, max) {
                Ok(p) => Dec::Packet(format!("{p:?}")),
                Err(bp::Error::InsufficientBytes(n)) => Dec::NeedMore(n),
                Err(e) => Dec::Malformed(format!("{e:?}")),
            },
        })
    }
}

/// Independent parse of the fixed header: (header length, remaining length), or `None`
/// when incomplete, `Err` when the length encoding itself is malformed.
pub fn declared(buf: &[u8]) -> Result<Option<(usize, usize)>, ()> {
    if buf.len() < 2 {
        return Ok(None);
    }
    let mut len = 0usize;
    let mut shift = 0;
    for (i, b) in buf[1..].iter().enumerate() {
        len += ((b & 0x7f) as usize) << shift;
        if b & 0x80 == 0 {
            return Ok(Some((i + 2, len)));
        }
        shift += 7;
        if i == 3 {
            return Err(());
        }
    }
    Ok(None)
}

// ------------------------------------------------------------------------------------
// C05: totality, boundedness, chunking independence
// ------------------------------------------------------------------------------------

const P5: &str = "C05";

struct Ctx<'a> {
    reporter: &'a Reporter,
    evals: AtomicU64,
    packets: AtomicU64,
    needmore: AtomicU64,
}

fn replay_bytes(codec: Codec, bytes: &[u8], max: usize) -> serde_json::Value {
    json!({"engine": "e3_codec", "mode": "decode", "codec": format!("{codec:?}"), "bytes": bytes, "max": max})
}

/// The C05 oracle for one byte string and one decoder.
fn check_decode(ctx: &Ctx, codec: Codec, bytes: &[u8], max: usize) -> Option<Dec> {
    ctx.evals.fetch_add(1, Ordering::Relaxed);
    let mut buf = BytesMut::from(bytes);
    let before = buf.len();
    let r = codec.decode(&mut buf, max);
    let consumed = before - buf.len();
    let decl = declared(bytes);
    let fail = |code: &str, detail: String| {
        let v = Violation::new(P5, format!("{code}:{codec:?}"), format!("{} on {:02x?} (max {max}): {detail}", codec.name(), &bytes[..bytes.len().min(24)]));
        ctx.reporter.report(&v, || replay_bytes(codec, bytes, max));
    };
    let dec = match r {
        Err(p) => {
            fail("decode_panic", format!("panicked: {p}"));
            return None;
        }
        Ok(d) => d,
    };
    match &dec {
        Dec::Packet(_) => {
            ctx.packets.fetch_add(1, Ordering::Relaxed);
            match decl {
                Ok(Some((h, rem))) => {
                    if consumed != h + rem {
                        fail("consumed_not_frame", format!("decoded a packet consuming {consumed} bytes, the fixed header declares a frame of {}", h + rem));
                    }
                    if rem > max {
                        fail("oversize_accepted", format!("accepted a frame with remaining length {rem} although the maximum is {max}"));
                    }
                }
                _ => fail("packet_without_frame", "decoded a packet although the fixed header is incomplete or malformed".into()),
            }
        }
        Dec::NeedMore(_) => {
            ctx.needmore.fetch_add(1, Ordering::Relaxed);
            if consumed != 0 {
                fail("consumed_on_needmore", format!("asked for more bytes but consumed {consumed}"));
            }
            if let Ok(Some((h, rem))) = decl {
                if bytes.len() >= h + rem {
                    fail("needmore_on_complete_frame", format!("asked for more bytes although the declared frame ({} bytes) is complete", h + rem));
                }
            }
        }
        Dec::Malformed(_) => {
            if let Ok(Some((h, rem))) = decl {
                if consumed > h + rem {
                    fail("consumed_beyond_frame", format!("consumed {consumed} bytes, declared frame is {}", h + rem));
                }
            }
        }
    }
    Some(dec)
}

/// Decode a whole stream the way a link does: decode, on need-more append the next chunk.
fn decode_stream(codec: Codec, chunks: &[&[u8]], max: usize) -> Result<Vec<Dec>, String> {
    let mut buf = BytesMut::new();
    let mut out = vec![];
    let mut next = 0;
    loop {
        match codec.decode(&mut buf, max)? {
            Dec::NeedMore(_) => {
                if next == chunks.len() {
                    return Ok(out);
                }
                buf.extend_from_slice(chunks[next]);
                next += 1;
            }
            Dec::Malformed(e) => {
                out.push(Dec::Malformed(e));
                return Ok(out);
            }
            p => out.push(p),
        }
        if out.len() > 64 {
            return Ok(out);
        }
    }
}

fn check_chunkings(ctx: &Ctx, codec: Codec, stream: &[u8], max: usize) {
    let whole = match decode_stream(codec, &[stream], max) {
        Ok(w) => w,
        Err(p) => {
            let v = Violation::new(P5, "decode_panic", format!("{} panicked on a stream: {p}", codec.name()));
            ctx.reporter.report(&v, || replay_bytes(codec, stream, max));
            return;
        }
    };
    let n = stream.len();
    for i in 0..=n {
        for j in i..=n {
            ctx.evals.fetch_add(1, Ordering::Relaxed);
            let chunks = [&stream[..i], &stream[i..j], &stream[j..]];
            match decode_stream(codec, &chunks, max) {
                Ok(got) if got == whole => {}
                Ok(got) => {
                    let v = Violation::new(
                        P5,
                        "chunking_dependent",
                        format!("{}: stream of {n} bytes split at ({i},{j}) decodes to {} items, unsplit to {}", codec.name(), got.len(), whole.len()),
                    );
                    ctx.reporter.report(&v, || json!({"engine":"e3_codec","mode":"chunks","codec":format!("{codec:?}"),"bytes":stream,"split":[i,j],"max":max}));
                    return;
                }
                Err(p) => {
                    let v = Violation::new(P5, "decode_panic", format!("{} panicked on split ({i},{j}): {p}", codec.name()));
                    ctx.reporter.report(&v, || json!({"engine":"e3_codec","mode":"chunks","codec":format!("{codec:?}"),"bytes":stream,"split":[i,j],"max":max}));
                    return;
                }
            }
        }
    }
}

/// Chunked streams through the real framing layers: `tokio_util::codec::Framed` with the
/// client codecs and `rumqttd::Network::read/readv` for the broker.
fn framed_layers(ctx: &Ctx, streams: &[(Vec<u8>, bool)]) -> u64 {
    use futures_lite::*;
    let rt = tokio::runtime::Builder::new_current_thread().enable_time().start_paused(true).build().unwrap();
    let mut n = 0u64;
    for (stream, v5) in streams.iter() {
        let len = stream.len();
        let splits: Vec<(usize, usize)> = (0..=len).flat_map(|i| (i..=len).map(move |j| (i, j))).collect();
        let reference_c = decode_stream(if *v5 { Codec::C5 } else { Codec::C4 }, &[&stream[..]], 1 << 20).unwrap_or_default();
        let reference_b = decode_stream(if *v5 { Codec::B5 } else { Codec::B4 }, &[&stream[..]], 1 << 20).unwrap_or_default();
        for (i, j) in splits {
            n += 2;
            let chunks = vec![stream[..i].to_vec(), stream[i..j].to_vec(), stream[j..].to_vec()];
            // client Framed
            let got_c: Result<Vec<Dec>, String> = catch(|| rt.block_on(framed_client(chunks.clone(), *v5)));
            let got_b: Result<Vec<Dec>, String> = catch(|| rt.block_on(framed_broker(chunks.clone(), *v5)));
            for (which, got, reference) in [("client Framed", got_c, &reference_c), ("broker Network", got_b, &reference_b)] {
                let ok = match &got {
                    Ok(g) => packets_only(g) == packets_only(reference),
                    Err(_) => false,
                };
                if !ok {
                    let v = Violation::new(
                        P5,
                        "framing_layer_chunking",
                        format!("{which} (v5={v5}): stream of {len} bytes split at ({i},{j}) yields {:?}, the bare decoder yields {} packets", got.as_ref().map(|g| g.len()), packets_only(reference).len()),
                    );
                    ctx.reporter.report(&v, || json!({"engine":"e3_codec","mode":"framed","v5":v5,"bytes":stream,"split":[i,j]}));
                }
            }
        }
    }
    ctx.evals.fetch_add(n, Ordering::Relaxed);
    n
}

fn packets_only(v: &[Dec]) -> Vec<&Dec> {
    v.iter().filter(|d| matches!(d, Dec::Packet(_))).collect()
}

mod futures_lite {
    use super::Dec;
    use futures_util::StreamExt;
    use tokio::io::AsyncWriteExt;

    pub async fn framed_client(chunks: Vec<Vec<u8>>, v5: bool) -> Vec<Dec> {
        let (near, mut far) = tokio::io::duplex(1 << 20);
        let mut out = vec![];
        if v5 {
            let codec = rumqttc::v5::mqttbytes::v5::Codec { max_incoming_size: Some(1 << 20), max_outgoing_size: None };
            let mut framed = tokio_util::codec::Framed::new(near, codec);
            for c in chunks {
                far.write_all(&c).await.unwrap();
                while let Some(Some(r)) = futures_util::FutureExt::now_or_never(framed.next()) {
                    match r {
                        Ok(p) => out.push(Dec::Packet(format!("{p:?}"))),
                        Err(e) => {
                            out.push(Dec::Malformed(format!("{e:?}")));
                            return out;
                        }
                    }
                }
            }
        } else {
            let codec = rumqttc::mqttbytes::v4::Codec { max_incoming_size: 1 << 20, max_outgoing_size: 1 << 20 };
            let mut framed = tokio_util::codec::Framed::new(near, codec);
            for c in chunks {
                far.write_all(&c).await.unwrap();
                while let Some(Some(r)) = futures_util::FutureExt::now_or_never(framed.next()) {
                    match r {
                        Ok(p) => out.push(Dec::Packet(format!("{p:?}"))),
                        Err(e) => {
                            out.push(Dec::Malformed(format!("{e:?}")));
                            return out;
                        }
                    }
                }
            }
        }
        out
    }

    pub async fn framed_broker(chunks: Vec<Vec<u8>>, v5: bool) -> Vec<Dec> {
        use rumqttd::protocol::{v4::V4, v5::V5};
        use rumqttd::verif::Network;
        let (near, mut far) = tokio::io::duplex(1 << 20);
        let mut out = vec![];
        macro_rules! run {
            ($proto:expr) => {{
                let mut net = Network::new(Box::new(near), 1 << 20, 100, $proto);
                for c in chunks {
                    far.write_all(&c).await.unwrap();
                    loop {
                        match futures_util::FutureExt::now_or_never(net.read()) {
                            Some(Ok(p)) => {
                                out.push(Dec::Packet(format!("{p:?}")));
                                let mut more = std::collections::VecDeque::new();
                                match net.readv(&mut more) {
                                    Ok(_) => out.extend(more.into_iter().map(|p| Dec::Packet(format!("{p:?}")))),
                                    Err(e) => {
                                        out.push(Dec::Malformed(format!("{e:?}")));
                                        return out;
                                    }
                                }
                            }
                            Some(Err(e)) => {
                                out.push(Dec::Malformed(format!("{e:?}")));
                                return out;
                            }
                            None => break,
                        }
                    }
                }
            }};
        }
        if v5 {
            run!(V5)
        } else {
            run!(V4)
        }
        out
    }
}

fn all_bytes(len: usize, mut f: impl FnMut(&[u8])) {
    let mut v = vec![0u8; len];
    loop {
        f(&v);
        let mut i = len;
        loop {
            if i == 0 {
                return;
            }
            i -= 1;
            if v[i] == 255 {
                v[i] = 0;
            } else {
                v[i] += 1;
                break;
            }
        }
    }
}

pub fn run_c05(tier: Tier) -> i32 {
    let reporter = Reporter::new(P5);
    let mut ev = Evidence::new(P5, tier);
    let ctx = Ctx { reporter: &reporter, evals: AtomicU64::new(0), packets: AtomicU64::new(0), needmore: AtomicU64::new(0) };
    // maximum packet sizes: generous, and tiny ones around the shortest frames
    let maxes: [usize; 5] = [1 << 20, 3, 2, 1, 0];
    // (a) every byte string up to length 2 (quick) / 3 (thorough)
    let max_len = if tier == Tier::Quick { 2 } else { 3 };
    let mut inputs_a = 0u64;
    for len in 0..=max_len {
        let firsts: Vec<u8> = if len == 0 { vec![0] } else { (0..=255u8).collect() };
        let n: u64 = firsts
            .par_iter()
            .map(|b0| {
                let mut n = 0u64;
                if len == 0 {
                    for c in CODECS {
                        check_decode(&ctx, c, &[], maxes[0]);
                    }
                    return 1;
                }
                all_bytes(len - 1, |rest| {
                    let mut s = vec![*b0];
                    s.extend_from_slice(rest);
                    for c in CODECS {
                        for m in maxes {
                            check_decode(&ctx, c, &s, m);
                        }
                    }
                    n += 1;
                });
                n
            })
            .sum();
        inputs_a += n;
    }
    // (b) every first byte x remaining-length prefixes over a small byte set x short bodies
    let set5 = [0x00u8, 0x01, 0x7f, 0x80, 0xff];
    let set7 = [0x00u8, 0x01, 0x02, 0x04, 0x7f, 0x80, 0xff];
    let body_len = if tier == Tier::Quick { 3 } else { 5 };
    let mut prefixes: Vec<Vec<u8>> = vec![];
    for l in 1..=5 {
        let mut idx = vec![0usize; l];
        loop {
            prefixes.push(idx.iter().map(|i| set5[*i]).collect());
            let mut k = l;
            loop {
                if k == 0 {
                    break;
                }
                k -= 1;
                if idx[k] + 1 < set5.len() {
                    idx[k] += 1;
                    break;
                }
                idx[k] = 0;
                if k == 0 {
                    k = usize::MAX;
                    break;
                }
            }
            if k == usize::MAX {
                break;
            }
        }
    }
    let mut bodies: Vec<Vec<u8>> = vec![vec![]];
    {
        let mut level: Vec<Vec<u8>> = vec![vec![]];
        for _ in 0..body_len {
            let mut next = vec![];
            for b in &level {
                for x in set7 {
                    let mut n = b.clone();
                    n.push(x);
                    next.push(n);
                }
            }
            bodies.extend(next.iter().cloned());
            level = next;
        }
    }
    let firsts: Vec<u8> = (0..=255u8).collect();
    let inputs_b: u64 = firsts
        .par_iter()
        .map(|b0| {
            let mut n = 0u64;
            for p in prefixes.iter() {
                // bodies only for frames that declare a short remaining length
                let short = p.len() == 1 && (p[0] as usize) <= body_len;
                let bs: &[Vec<u8>] = if short { &bodies } else { &bodies[..1] };
                for b in bs {
                    let mut s = vec![*b0];
                    s.extend_from_slice(p);
                    s.extend_from_slice(b);
                    for c in CODECS {
                        check_decode(&ctx, c, &s, maxes[0]);
                    }
                    n += 1;
                }
            }
            n
        })
        .sum();
    // (b2) complete short frames: every first byte, remaining length 2..=4 (thorough: 5), every
    // body of exactly that length over a byte set that contains small lengths, property
    // identifiers and reason codes — where the short forms of the MQTT 5 acknowledgements,
    // DISCONNECT, CONNACK and UNSUBACK live; and the same bodies one byte short
    let set13 = [0x00u8, 0x01, 0x02, 0x03, 0x04, 0x10, 0x11, 0x1f, 0x26, 0x7f, 0x80, 0x92, 0xff];
    let max_rem = if tier == Tier::Quick { 4 } else { 5 };
    let inputs_b2: u64 = firsts
        .par_iter()
        .map(|b0| {
            let mut n = 0u64;
            for rem in 2..=max_rem {
                let mut idx = vec![0usize; rem];
                'bodies: loop {
                    let mut s = vec![*b0, rem as u8];
                    s.extend(idx.iter().map(|i| set13[*i]));
                    for c in CODECS {
                        check_decode(&ctx, c, &s, maxes[0]);
                    }
                    n += 1;
                    if rem <= 3 {
                        // the same frame with its last byte still missing
                        s.pop();
                        for c in CODECS {
                            check_decode(&ctx, c, &s, maxes[0]);
                        }
                        n += 1;
                    }
                    let mut k = rem;
                    loop {
                        if k == 0 {
                            break 'bodies;
                        }
                        k -= 1;
                        if idx[k] + 1 < set13.len() {
                            idx[k] += 1;
                            break;
                        }
                        idx[k] = 0;
                    }
                }
            }
            n
        })
        .sum();
    let inputs_b = inputs_b + inputs_b2;
    // (c) mutations of valid packets; (d) chunkings; (e) max sizes
    let grid4 = grid_v4(true, false);
    let grid5 = grid_v5(true, false);
    let mut frames: Vec<(Vec<u8>, bool)> = vec![];
    for p in grid4.iter() {
        let mut b = BytesMut::new();
        if p.write(&mut b, usize::MAX).is_ok() && b.len() <= 300 {
            frames.push((b.to_vec(), false));
        }
    }
    for p in grid5.iter() {
        let mut b = BytesMut::new();
        if p.write(&mut b, None).is_ok() && b.len() <= 300 {
            frames.push((b.to_vec(), true));
        }
    }
    let step = if tier == Tier::Quick { (frames.len() / 400).max(1) } else { (frames.len() / 4000).max(1) };
    let sel: Vec<&(Vec<u8>, bool)> = frames.iter().step_by(step).collect();
    let inputs_c: u64 = sel
        .par_iter()
        .map(|(f, v5)| {
            let codecs: [Codec; 2] = if *v5 { [Codec::C5, Codec::B5] } else { [Codec::C4, Codec::B4] };
            let mut n = 0u64;
            for c in codecs {
                // truncations
                for k in 0..f.len() {
                    check_decode(&ctx, c, &f[..k], 1 << 20);
                    n += 1;
                }
                // single-byte substitutions
                for off in 0..f.len() {
                    for x in set7 {
                        if f[off] != x {
                            let mut m = f.clone();
                            m[off] = x;
                            check_decode(&ctx, c, &m, 1 << 20);
                            n += 1;
                        }
                    }
                }
                // length byte +-1
                for d in [1i16, -1] {
                    let mut m = f.clone();
                    m[1] = (m[1] as i16 + d) as u8;
                    check_decode(&ctx, c, &m, 1 << 20);
                    n += 1;
                }
                // max-size settings around the frame
                let rem = f.len() - declared(f).ok().flatten().map(|d| d.0).unwrap_or(2);
                for m in [0usize, 1, rem.saturating_sub(1), rem, rem + 1, usize::MAX >> 1] {
                    check_decode(&ctx, c, f, m);
                    n += 1;
                }
            }
            n
        })
        .sum();
    // (c2) every valid frame (not only the sampled ones) cut short at every position with its
    // remaining length rewritten to fit: complete frames whose inner lengths (strings,
    // property blocks, fixed-size fields) point past the end
    let inputs_c2: u64 = frames
        .par_iter()
        .filter(|(f, _)| f.len() <= 129 && f[1] < 128)
        .map(|(f, v5)| {
            let codecs: [Codec; 2] = if *v5 { [Codec::C5, Codec::B5] } else { [Codec::C4, Codec::B4] };
            let mut n = 0u64;
            for k in 2..f.len() {
                let mut m = f[..k].to_vec();
                m[1] = (k - 2) as u8;
                // followed by a PINGREQ: nothing beyond the declared frame may be consumed
                m.extend_from_slice(&[0xc0, 0x00]);
                for c in codecs {
                    check_decode(&ctx, c, &m, 1 << 20);
                    n += 1;
                }
            }
            n
        })
        .sum();
    let inputs_c = inputs_c + inputs_c2;
    // (d) streams of 1-3 frames under every split into <= 3 chunks
    let short: Vec<&(Vec<u8>, bool)> = frames.iter().filter(|(f, _)| f.len() <= 24).collect();
    let sstep = if tier == Tier::Quick { (short.len() / 40).max(1) } else { (short.len() / 300).max(1) };
    let picks: Vec<&(Vec<u8>, bool)> = short.iter().step_by(sstep).cloned().collect();
    let mut streams: Vec<(Vec<u8>, bool)> = vec![];
    for (i, a) in picks.iter().enumerate() {
        streams.push((a.0.clone(), a.1));
        if let Some(b) = picks.iter().skip(i + 1).find(|b| b.1 == a.1) {
            let mut s = a.0.clone();
            s.extend_from_slice(&b.0);
            streams.push((s.clone(), a.1));
            s.extend_from_slice(&a.0);
            if s.len() <= 60 {
                streams.push((s, a.1));
            }
        }
    }
    streams.par_iter().for_each(|(s, v5)| {
        let codecs: [Codec; 2] = if *v5 { [Codec::C5, Codec::B5] } else { [Codec::C4, Codec::B4] };
        for c in codecs {
            check_chunkings(&ctx, c, s, 1 << 20);
        }
    });
    let fstep = if tier == Tier::Quick { (streams.len() / 30).max(1) } else { (streams.len() / 200).max(1) };
    let fstreams: Vec<(Vec<u8>, bool)> = streams.iter().step_by(fstep).cloned().collect();
    let framed_runs = framed_layers(&ctx, &fstreams);

    let evals = ctx.evals.load(Ordering::Relaxed);
    ev.states = inputs_a + inputs_b + inputs_c + streams.len() as u64;
    ev.transitions = evals;
    ev.traces_validated = evals;
    ev.set("evaluations", json!(evals));
    ev.set("distinct_nontrivial", json!(ctx.packets.load(Ordering::Relaxed) + ctx.needmore.load(Ordering::Relaxed)));
    ev.set("inputs", json!({"all_byte_strings_up_to": max_len, "count_a": inputs_a, "header_prefix_grid": inputs_b, "complete_short_frames_rem_2_to": max_rem, "complete_short_frames": inputs_b2, "mutations_of_valid_frames": inputs_c, "valid_frames_mutated": sel.len(), "streams_chunked": streams.len(), "framing_layer_runs": framed_runs}));
    ev.set("decoded_packets", json!(ctx.packets.load(Ordering::Relaxed)));
    ev.set("need_more_answers", json!(ctx.needmore.load(Ordering::Relaxed)));
    ev.set("rule", json!("every byte string up to the length bound and every grid input is decoded by each of the four decoders (bare entry points; streams also through tokio_util Framed and rumqttd Network::read/readv); non-trivial = inputs answered with a packet or with need-more"));
    ev.sample(json!({"bytes": [0x20, 0x03, 0, 0, 0], "note": "MQTT 5 CONNACK frame"}));
    ev.sample(json!({"bytes": [0x30, 0xff, 0xff, 0xff, 0xff, 0x01], "note": "5-byte remaining length"}));
    ev.assumptions = vec![
        "long random inputs / mutation fuzzing are sampling and deliberately not used; inputs are the stated grids".into(),
        "declared frame = fixed header + remaining length, parsed independently by the harness".into(),
    ];
    ev.violations = reporter.new_violations();
    let code = reporter.finish();
    ev.write();
    println!("C05 {}: inputs={} decoder runs={} packets={} need-more={}", tier.name(), ev.states, evals, ctx.packets.load(Ordering::Relaxed), ctx.needmore.load(Ordering::Relaxed));
    code
}

// ------------------------------------------------------------------------------------
// C04: grids of well-formed packets (client-native values) and broker-native shapes
// ------------------------------------------------------------------------------------

const P4: &str = "C04";

fn strs() -> Vec<String> {
    vec!["a".into(), "a/b".into(), "é/中".into(), "x".repeat(127), "y".repeat(128)]
}

fn pkids() -> Vec<u16> {
    vec![1, 2, 255, 256, 65535]
}

/// payload sizes that put the remaining length of a PUBLISH at each width boundary
fn boundary_payloads(overhead: usize, large: bool) -> Vec<usize> {
    let mut v = vec![0usize, 1];
    let mut targets = vec![127usize, 128, 16383, 16384];
    if large {
        targets.extend([2_097_151, 2_097_152]);
    }
    for t in targets {
        if t >= overhead {
            v.push(t - overhead);
        }
    }
    v
}

fn q4(q: u8) -> c4b::QoS {
    match q {
        0 => c4b::QoS::AtMostOnce,
        1 => c4b::QoS::AtLeastOnce,
        _ => c4b::QoS::ExactlyOnce,
    }
}

fn q5(q: u8) -> c5b::QoS {
    match q {
        0 => c5b::QoS::AtMostOnce,
        1 => c5b::QoS::AtLeastOnce,
        _ => c5b::QoS::ExactlyOnce,
    }
}

fn id_near_boundary(i: u16) -> bool {
    let near = |c: u32| (i as u32 + 3 >= c) && (i as u32 <= c + 3);
    i <= 300 || near(0x1ff) || near(0x3fff) || near(0x7fff) || near(0x8000 + 0xff) || near(0xff00) || i >= 65280 || i % 257 == 0
}

pub fn grid_v4(reduced: bool, all_ids: bool) -> Vec<c4::Packet> {
    let mut g = vec![];
    // CONNECT
    let ids: Vec<String> = if reduced { vec!["a".into(), "".into()] } else { vec!["".into(), "a".into(), "é".into(), "c".repeat(127), "c".repeat(128), "c".repeat(65535)] };
    for id in ids.iter() {
        for ka in [0u16, 10, 65535] {
            for clean in [true, false] {
                let wills: Vec<Option<c4::LastWill>> = {
                    let mut w = vec![None];
                    for q in 0..3u8 {
                        for r in [false, true] {
                            w.push(Some(c4::LastWill::new("w/t", if r { vec![] } else { vec![1, 2, 3] }, q4(q), r)));
                        }
                    }
                    w
                };
                for will in wills {
                    // (a login with an empty user name is not representable on the wire: the
                    // user-name flag is what announces the field; kept out of the grid)
                    for login in [None, Some(c4::Login::new("u", "p")), Some(c4::Login::new("user", ""))] {
                        let mut c = c4::Connect::new(id.clone());
                        c.keep_alive = ka;
                        c.clean_session = clean;
                        c.last_will = will.clone();
                        c.login = login;
                        g.push(c4::Packet::Connect(c));
                        if reduced && g.len() > 40 {
                            break;
                        }
                    }
                }
            }
        }
    }
    for sp in [false, true] {
        for code in [
            c4::ConnectReturnCode::Success,
            c4::ConnectReturnCode::RefusedProtocolVersion,
            c4::ConnectReturnCode::BadClientId,
            c4::ConnectReturnCode::ServiceUnavailable,
            c4::ConnectReturnCode::BadUserNamePassword,
            c4::ConnectReturnCode::NotAuthorized,
        ] {
            g.push(c4::Packet::ConnAck(c4::ConnAck::new(code, sp)));
        }
    }
    // PUBLISH
    for topic in strs() {
        for q in 0..3u8 {
            for dup in [false, true] {
                for retain in [false, true] {
                    let ids = if q == 0 { vec![0u16] } else { pkids() };
                    for id in ids {
                        let overhead = 2 + topic.len() + if q > 0 { 2 } else { 0 };
                        let sizes = if topic == "a" && !dup && !retain { boundary_payloads(overhead, !reduced && id <= 1) } else { vec![0, 3] };
                        for s in sizes {
                            let mut p = c4::Publish::new(topic.clone(), q4(q), vec![7u8; s]);
                            p.dup = dup;
                            p.retain = retain;
                            p.pkid = id;
                            g.push(c4::Packet::Publish(p));
                        }
                    }
                }
            }
        }
    }
    for id in pkids() {
        g.push(c4::Packet::PubAck(c4::PubAck::new(id)));
        g.push(c4::Packet::PubRec(c4::PubRec::new(id)));
        g.push(c4::Packet::PubRel(c4::PubRel::new(id)));
        g.push(c4::Packet::PubComp(c4::PubComp::new(id)));
        g.push(c4::Packet::UnsubAck(c4::UnsubAck::new(id)));
        let filters = [("a", 0u8), ("a/+", 1), ("#", 2), ("é/#", 1)];
        for n in 1..=3 {
            for start in 0..filters.len() {
                let fs: Vec<c4::SubscribeFilter> = (0..n).map(|k| filters[(start + k) % 4]).map(|(f, q)| c4::SubscribeFilter::new(f.to_string(), q4(q))).collect();
                let mut s = c4::Subscribe::new_many(fs);
                s.pkid = id;
                g.push(c4::Packet::Subscribe(s));
                let mut u = c4::Unsubscribe::new("a");
                u.topics = (0..n).map(|k| filters[(start + k) % 4].0.to_string()).collect();
                u.pkid = id;
                g.push(c4::Packet::Unsubscribe(u));
                let codes = [c4::SubscribeReasonCode::Success(c4b::QoS::AtMostOnce), c4::SubscribeReasonCode::Success(c4b::QoS::AtLeastOnce), c4::SubscribeReasonCode::Success(c4b::QoS::ExactlyOnce), c4::SubscribeReasonCode::Failure];
                g.push(c4::Packet::SubAck(c4::SubAck::new(id, (0..n).map(|k| codes[(start + k) % 4]).collect())));
            }
        }
    }
    if !reduced {
        // every packet id 1..=65535 in every id-carrying packet type (quick tier: the ids around
        // every byte / width boundary only)
        for id in (1..=u16::MAX).filter(|&i| all_ids || id_near_boundary(i)) {
            g.push(c4::Packet::PubAck(c4::PubAck::new(id)));
            g.push(c4::Packet::PubRec(c4::PubRec::new(id)));
            g.push(c4::Packet::PubRel(c4::PubRel::new(id)));
            g.push(c4::Packet::PubComp(c4::PubComp::new(id)));
            g.push(c4::Packet::UnsubAck(c4::UnsubAck::new(id)));
            g.push(c4::Packet::SubAck(c4::SubAck::new(id, vec![c4::SubscribeReasonCode::Success(c4b::QoS::AtLeastOnce)])));
            let mut s = c4::Subscribe::new("a", c4b::QoS::AtLeastOnce);
            s.pkid = id;
            g.push(c4::Packet::Subscribe(s));
            let mut u = c4::Unsubscribe::new("a");
            u.pkid = id;
            g.push(c4::Packet::Unsubscribe(u));
            let mut p = c4::Publish::new("a", c4b::QoS::ExactlyOnce, vec![1u8]);
            p.pkid = id;
            g.push(c4::Packet::Publish(p));
        }
    }
    g.push(c4::Packet::PingReq);
    g.push(c4::Packet::PingResp);
    g.push(c4::Packet::Disconnect);
    g
}

fn ups(k: usize) -> Vec<(String, String)> {
    (0..k).map(|i| (format!("k{i}"), format!("v{i}"))).collect()
}

pub fn pub_props(bits: u16) -> Option<c5::PublishProperties> {
    if bits <= 1 {
        return None;
    }
    let b = bits - 1;
    Some(c5::PublishProperties {
        payload_format_indicator: (b & 1 != 0).then_some(1),
        message_expiry_interval: (b & 2 != 0).then_some(3600),
        topic_alias: (b & 4 != 0).then_some(9),
        response_topic: (b & 8 != 0).then(|| "r/t".to_string()),
        correlation_data: (b & 16 != 0).then(|| Bytes::from_static(&[1, 2, 3])),
        user_properties: if b & 32 != 0 { ups(1 + (b as usize >> 8) % 2) } else { vec![] },
        subscription_identifiers: if b & 64 != 0 { vec![1, 200] } else { vec![] },
        content_type: (b & 128 != 0).then(|| "text/plain".to_string()),
    })
}

fn conn_props(b: u16) -> Option<c5::ConnectProperties> {
    if b <= 1 {
        return None;
    }
    let b = b - 1;
    Some(c5::ConnectProperties {
        session_expiry_interval: (b & 1 != 0).then_some(60),
        receive_maximum: (b & 2 != 0).then_some(10),
        max_packet_size: (b & 4 != 0).then_some(1024),
        topic_alias_max: (b & 8 != 0).then_some(5),
        request_response_info: (b & 16 != 0).then_some(1),
        request_problem_info: (b & 32 != 0).then_some(0),
        user_properties: if b & 64 != 0 { ups(2) } else { vec![] },
        authentication_method: (b & 128 != 0).then(|| "m".to_string()),
        authentication_data: (b & 256 != 0).then(|| Bytes::from_static(&[9, 9])),
    })
}

fn will_props(b: u16) -> Option<c5::LastWillProperties> {
    if b <= 1 {
        return None;
    }
    let b = b - 1;
    Some(c5::LastWillProperties {
        delay_interval: (b & 1 != 0).then_some(5),
        payload_format_indicator: (b & 2 != 0).then_some(1),
        message_expiry_interval: (b & 4 != 0).then_some(30),
        content_type: (b & 8 != 0).then(|| "t".to_string()),
        response_topic: (b & 16 != 0).then(|| "r".to_string()),
        correlation_data: (b & 32 != 0).then(|| Bytes::from_static(&[5])),
        user_properties: if b & 64 != 0 { ups(1) } else { vec![] },
    })
}

fn connack_props(set: &[usize]) -> Option<c5::ConnAckProperties> {
    if set.is_empty() {
        return None;
    }
    let h = |i: usize| set.contains(&i);
    Some(c5::ConnAckProperties {
        session_expiry_interval: h(0).then_some(7),
        receive_max: h(1).then_some(20),
        max_qos: h(2).then_some(1),
        retain_available: h(3).then_some(1),
        max_packet_size: h(4).then_some(4096),
        assigned_client_identifier: h(5).then(|| "assigned".to_string()),
        topic_alias_max: h(6).then_some(11),
        reason_string: h(7).then(|| "why".to_string()),
        user_properties: if h(8) { ups(2) } else { vec![] },
        wildcard_subscription_available: h(9).then_some(1),
        subscription_identifiers_available: h(10).then_some(1),
        shared_subscription_available: h(11).then_some(0),
        server_keep_alive: h(12).then_some(33),
        response_information: h(13).then(|| "info".to_string()),
        server_reference: h(14).then(|| "ref".to_string()),
        authentication_method: h(15).then(|| "meth".to_string()),
        authentication_data: h(16).then(|| Bytes::from_static(&[1])),
    })
}

pub fn grid_v5(reduced: bool, all_ids: bool) -> Vec<c5::Packet> {
    let mut g = vec![];
    // CONNECT: every subset of the 9 properties; will x will-property subsets; logins
    let nconn = if reduced { 16 } else { 513 };
    for b in 0..nconn {
        let c = c5::Connect { keep_alive: 10, client_id: "a".into(), clean_start: b % 2 == 0, properties: conn_props(b) };
        g.push(c5::Packet::Connect(c, None, None));
    }
    let nwill = if reduced { 8 } else { 129 };
    for b in 0..nwill {
        for q in 0..3u8 {
            let c = c5::Connect { keep_alive: 65535, client_id: if b % 3 == 0 { "".into() } else { "é".into() }, clean_start: true, properties: None };
            let w = c5::LastWill { topic: Bytes::from_static(b"w/t"), message: Bytes::from(vec![1u8; (b % 3) as usize]), qos: q5(q), retain: b % 2 == 1, properties: will_props(b) };
            let login = match b % 3 {
                0 => None,
                1 => Some(c5::Login { username: "u".into(), password: "p".into() }),
                _ => Some(c5::Login { username: "user".into(), password: "".into() }),
            };
            g.push(c5::Packet::Connect(c, Some(w), login));
        }
    }
    // CONNACK: none, all singletons, all pairs, all
    let mut sets: Vec<Vec<usize>> = vec![vec![], (0..17).collect()];
    for i in 0..17 {
        sets.push(vec![i]);
        if !reduced {
            for j in i + 1..17 {
                sets.push(vec![i, j]);
            }
        }
    }
    let codes = [
        c5::ConnectReturnCode::Success,
        c5::ConnectReturnCode::UnspecifiedError,
        c5::ConnectReturnCode::NotAuthorized,
        c5::ConnectReturnCode::ServerBusy,
        c5::ConnectReturnCode::Banned,
        c5::ConnectReturnCode::QuotaExceeded,
        c5::ConnectReturnCode::ServerMoved,
    ];
    for (k, s) in sets.iter().enumerate() {
        g.push(c5::Packet::ConnAck(c5::ConnAck { session_present: k % 2 == 0, code: codes[k % codes.len()], properties: connack_props(s) }));
    }
    // PUBLISH: every subset of the 8 properties x QoS; sizes at the boundaries
    let npub = if reduced { 32 } else { 257 };
    for b in 0..npub {
        for q in 0..3u8 {
            let mut p = c5::Publish::new("a/b", q5(q), vec![1u8, 2, 3], pub_props(b));
            p.pkid = if q == 0 { 0 } else { pkids()[(b as usize) % 5] };
            p.dup = b % 2 == 1 && q > 0;
            p.retain = b % 3 == 1;
            g.push(c5::Packet::Publish(p));
        }
    }
    // topic length x property-section length on both sides of the 127/128 width boundary
    for topic in strs() {
        for q in [0u8, 1] {
            for plen in [0usize, 1, 120, 124, 125, 126, 127, 128, 200, 16_380] {
                for extra in [0u16, 1 + 2, 1 + 64] {
                    let mut props = pub_props(extra).unwrap_or_default();
                    props.content_type = Some("c".repeat(plen));
                    for payload in [0usize, 20] {
                        let mut p = c5::Publish::new(topic.clone(), q5(q), vec![9u8; payload], Some(props.clone()));
                        p.pkid = if q == 0 { 0 } else { 7 };
                        g.push(c5::Packet::Publish(p));
                    }
                }
            }
        }
    }
    for topic in strs() {
        for q in 0..3u8 {
            let overhead = 2 + topic.len() + if q > 0 { 2 } else { 0 } + 1;
            let sizes = if topic == "a" { boundary_payloads(overhead, !reduced && q == 1) } else { vec![0, 5] };
            for s in sizes {
                let mut p = c5::Publish::new(topic.clone(), q5(q), vec![7u8; s], None);
                p.pkid = if q == 0 { 0 } else { 65535 };
                g.push(c5::Packet::Publish(p));
            }
        }
    }
    // acks: reason codes x {no properties, reason string, user properties, both}
    let ack_props = |k: usize| -> (Option<String>, Vec<(String, String)>) {
        match k {
            0 => (None, vec![]),
            1 => (Some("because".into()), vec![]),
            2 => (None, ups(2)),
            _ => (Some("r".into()), ups(1)),
        }
    };
    for id in pkids() {
        for k in 0..4 {
            let (rs, up) = ack_props(k);
            let some = k > 0;
            for r in [c5::PubAckReason::Success, c5::PubAckReason::NoMatchingSubscribers, c5::PubAckReason::UnspecifiedError, c5::PubAckReason::NotAuthorized, c5::PubAckReason::QuotaExceeded] {
                g.push(c5::Packet::PubAck(c5::PubAck { pkid: id, reason: r, properties: some.then(|| c5::PubAckProperties { reason_string: rs.clone(), user_properties: up.clone() }) }));
            }
            for r in [c5::PubRecReason::Success, c5::PubRecReason::NoMatchingSubscribers, c5::PubRecReason::UnspecifiedError, c5::PubRecReason::PacketIdentifierInUse] {
                g.push(c5::Packet::PubRec(c5::PubRec { pkid: id, reason: r, properties: some.then(|| c5::PubRecProperties { reason_string: rs.clone(), user_properties: up.clone() }) }));
            }
            for r in [c5::PubRelReason::Success, c5::PubRelReason::PacketIdentifierNotFound] {
                g.push(c5::Packet::PubRel(c5::PubRel { pkid: id, reason: r, properties: some.then(|| c5::PubRelProperties { reason_string: rs.clone(), user_properties: up.clone() }) }));
            }
            for r in [c5::PubCompReason::Success, c5::PubCompReason::PacketIdentifierNotFound] {
                g.push(c5::Packet::PubComp(c5::PubComp { pkid: id, reason: r, properties: some.then(|| c5::PubCompProperties { reason_string: rs.clone(), user_properties: up.clone() }) }));
            }
            // SUBACK / UNSUBACK
            let codes = [
                c5::SubscribeReasonCode::Success(c5b::QoS::AtMostOnce),
                c5::SubscribeReasonCode::Success(c5b::QoS::AtLeastOnce),
                c5::SubscribeReasonCode::Success(c5b::QoS::ExactlyOnce),
                c5::SubscribeReasonCode::Unspecified,
                c5::SubscribeReasonCode::NotAuthorized,
                c5::SubscribeReasonCode::TopicFilterInvalid,
            ];
            for n in 1..=3 {
                g.push(c5::Packet::SubAck(c5::SubAck { pkid: id, return_codes: (0..n).map(|j| codes[(k + j) % codes.len()]).collect(), properties: some.then(|| c5::SubAckProperties { reason_string: rs.clone(), user_properties: up.clone() }) }));
                let ur = [c5::UnsubAckReason::Success, c5::UnsubAckReason::NoSubscriptionExisted, c5::UnsubAckReason::NotAuthorized];
                g.push(c5::Packet::UnsubAck(c5::UnsubAck { pkid: id, reasons: (0..n).map(|j| ur[(k + j) % 3]).collect(), properties: some.then(|| c5::UnsubAckProperties { reason_string: rs.clone(), user_properties: up.clone() }) }));
            }
        }
        // SUBSCRIBE / UNSUBSCRIBE
        let rules = [c5::RetainForwardRule::OnEverySubscribe, c5::RetainForwardRule::OnNewSubscribe, c5::RetainForwardRule::Never];
        for n in 1..=3usize {
            for opt in 0..12usize {
                let fs: Vec<c5::Filter> = (0..n)
                    .map(|j| {
                        let mut f = c5::Filter::new(["a", "a/+", "#"][(opt + j) % 3], q5(((opt + j) % 3) as u8));
                        f.nolocal = (opt + j) % 2 == 1;
                        f.preserve_retain = (opt / 2 + j) % 2 == 1;
                        f.retain_forward_rule = rules[(opt / 4 + j) % 3].clone();
                        f
                    })
                    .collect();
                let props = match opt % 4 {
                    0 => None,
                    1 => Some(c5::SubscribeProperties { id: Some(1), user_properties: vec![] }),
                    2 => Some(c5::SubscribeProperties { id: None, user_properties: ups(2) }),
                    _ => Some(c5::SubscribeProperties { id: Some(268_435_455), user_properties: ups(1) }),
                };
                let mut s = c5::Subscribe::new_many(fs, props);
                s.pkid = id;
                g.push(c5::Packet::Subscribe(s));
            }
            let mut u = c5::Unsubscribe::new("a", (n == 2).then(|| c5::UnsubscribeProperties { user_properties: ups(1) }));
            u.filters = (0..n).map(|j| ["a", "a/+", "é/#"][j % 3].to_string()).collect();
            u.pkid = id;
            g.push(c5::Packet::Unsubscribe(u));
        }
    }
    // property sections around the one-byte / two-byte length boundary for every packet type
    for n in [120usize, 124, 125, 126, 127, 128, 129, 200, 16_383] {
        let rs = Some("r".repeat(n));
        g.push(c5::Packet::PubAck(c5::PubAck { pkid: 1, reason: c5::PubAckReason::Success, properties: Some(c5::PubAckProperties { reason_string: rs.clone(), user_properties: vec![] }) }));
        g.push(c5::Packet::PubRec(c5::PubRec { pkid: 1, reason: c5::PubRecReason::Success, properties: Some(c5::PubRecProperties { reason_string: rs.clone(), user_properties: vec![] }) }));
        g.push(c5::Packet::PubRel(c5::PubRel { pkid: 1, reason: c5::PubRelReason::Success, properties: Some(c5::PubRelProperties { reason_string: rs.clone(), user_properties: vec![] }) }));
        g.push(c5::Packet::PubComp(c5::PubComp { pkid: 1, reason: c5::PubCompReason::Success, properties: Some(c5::PubCompProperties { reason_string: rs.clone(), user_properties: vec![] }) }));
        g.push(c5::Packet::SubAck(c5::SubAck { pkid: 1, return_codes: vec![c5::SubscribeReasonCode::Success(c5b::QoS::AtLeastOnce)], properties: Some(c5::SubAckProperties { reason_string: rs.clone(), user_properties: vec![] }) }));
        g.push(c5::Packet::UnsubAck(c5::UnsubAck { pkid: 1, reasons: vec![c5::UnsubAckReason::Success], properties: Some(c5::UnsubAckProperties { reason_string: rs.clone(), user_properties: vec![] }) }));
        g.push(c5::Packet::Disconnect(c5::Disconnect {
            reason_code: c5::DisconnectReasonCode::ServerBusy,
            properties: Some(c5::DisconnectProperties { session_expiry_interval: None, reason_string: rs.clone(), user_properties: vec![], server_reference: None }),
        }));
        let mut cp = connack_props(&[7]).unwrap();
        cp.reason_string = rs.clone();
        g.push(c5::Packet::ConnAck(c5::ConnAck { session_present: false, code: c5::ConnectReturnCode::Success, properties: Some(cp) }));
        let mut cn = conn_props(129).unwrap();
        cn.authentication_method = Some("m".repeat(n));
        g.push(c5::Packet::Connect(c5::Connect { keep_alive: 5, client_id: "a".into(), clean_start: true, properties: Some(cn) }, None, None));
        let mut s = c5::Subscribe::new(c5::Filter::new("a", c5b::QoS::AtMostOnce), Some(c5::SubscribeProperties { id: Some(3), user_properties: vec![("k".into(), "v".repeat(n))] }));
        s.pkid = 1;
        g.push(c5::Packet::Subscribe(s));
        let mut u = c5::Unsubscribe::new("a", Some(c5::UnsubscribeProperties { user_properties: vec![("k".into(), "v".repeat(n))] }));
        u.pkid = 1;
        g.push(c5::Packet::Unsubscribe(u));
        let mut wp = will_props(9).unwrap();
        wp.content_type = Some("t".repeat(n));
        let w = c5::LastWill { topic: Bytes::from_static(b"w"), message: Bytes::from_static(b"m"), qos: c5b::QoS::AtLeastOnce, retain: false, properties: Some(wp) };
        g.push(c5::Packet::Connect(c5::Connect { keep_alive: 5, client_id: "a".into(), clean_start: true, properties: None }, Some(w), None));
    }
    // DISCONNECT: every reason code x property subsets
    use c5::DisconnectReasonCode as R;
    let reasons = [R::NormalDisconnection, R::DisconnectWithWillMessage, R::UnspecifiedError, R::MalformedPacket, R::ProtocolError, R::NotAuthorized, R::ServerBusy, R::ServerShuttingDown, R::KeepAliveTimeout, R::SessionTakenOver, R::TopicAliasInvalid, R::PacketTooLarge];
    for r in reasons {
        for b in 0..17u16 {
            let props = if b <= 1 {
                None
            } else {
                let b = b - 1;
                Some(c5::DisconnectProperties {
                    session_expiry_interval: (b & 1 != 0).then_some(9),
                    reason_string: (b & 2 != 0).then(|| "bye".to_string()),
                    user_properties: if b & 4 != 0 { ups(1) } else { vec![] },
                    server_reference: (b & 8 != 0).then(|| "other".to_string()),
                })
            };
            g.push(c5::Packet::Disconnect(c5::Disconnect { reason_code: r, properties: props }));
        }
    }
    // every MQTT 5 reason code of every acknowledgement type (one packet each)
    {
        use c5::ConnectReturnCode as C;
        for code in [
            C::Success, C::UnspecifiedError, C::MalformedPacket, C::ProtocolError, C::ImplementationSpecificError,
            C::UnsupportedProtocolVersion, C::ClientIdentifierNotValid, C::BadUserNamePassword, C::NotAuthorized,
            C::ServerUnavailable, C::ServerBusy, C::Banned, C::BadAuthenticationMethod, C::TopicNameInvalid,
            C::PacketTooLarge, C::QuotaExceeded, C::PayloadFormatInvalid, C::RetainNotSupported, C::QoSNotSupported,
            C::UseAnotherServer, C::ServerMoved, C::ConnectionRateExceeded,
        ] {
            g.push(c5::Packet::ConnAck(c5::ConnAck { session_present: false, code, properties: None }));
        }
        use c5::PubAckReason as A;
        for reason in [A::Success, A::NoMatchingSubscribers, A::UnspecifiedError, A::ImplementationSpecificError, A::NotAuthorized, A::TopicNameInvalid, A::PacketIdentifierInUse, A::QuotaExceeded, A::PayloadFormatInvalid] {
            g.push(c5::Packet::PubAck(c5::PubAck { pkid: 7, reason, properties: None }));
        }
        use c5::PubRecReason as R2;
        for reason in [R2::Success, R2::NoMatchingSubscribers, R2::UnspecifiedError, R2::ImplementationSpecificError, R2::NotAuthorized, R2::TopicNameInvalid, R2::PacketIdentifierInUse, R2::QuotaExceeded, R2::PayloadFormatInvalid] {
            g.push(c5::Packet::PubRec(c5::PubRec { pkid: 7, reason, properties: None }));
        }
        use c5::SubscribeReasonCode as S;
        for code in [
            S::Success(c5b::QoS::AtMostOnce), S::Success(c5b::QoS::AtLeastOnce), S::Success(c5b::QoS::ExactlyOnce), S::Unspecified,
            S::ImplementationSpecific, S::NotAuthorized, S::TopicFilterInvalid, S::PkidInUse, S::QuotaExceeded,
            S::SharedSubscriptionsNotSupported, S::SubscriptionIdNotSupported, S::WildcardSubscriptionsNotSupported,
        ] {
            g.push(c5::Packet::SubAck(c5::SubAck { pkid: 7, return_codes: vec![code], properties: None }));
        }
        use c5::UnsubAckReason as U;
        for reason in [U::Success, U::NoSubscriptionExisted, U::UnspecifiedError, U::ImplementationSpecificError, U::NotAuthorized, U::TopicFilterInvalid, U::PacketIdentifierInUse] {
            g.push(c5::Packet::UnsubAck(c5::UnsubAck { pkid: 7, reasons: vec![reason], properties: None }));
        }
        use c5::DisconnectReasonCode as D;
        for reason_code in [
            D::NormalDisconnection, D::DisconnectWithWillMessage, D::UnspecifiedError, D::MalformedPacket, D::ProtocolError,
            D::ImplementationSpecificError, D::NotAuthorized, D::ServerBusy, D::ServerShuttingDown, D::KeepAliveTimeout,
            D::SessionTakenOver, D::TopicFilterInvalid, D::TopicNameInvalid, D::ReceiveMaximumExceeded, D::TopicAliasInvalid,
            D::PacketTooLarge, D::MessageRateTooHigh, D::QuotaExceeded, D::AdministrativeAction, D::PayloadFormatInvalid,
            D::RetainNotSupported, D::QoSNotSupported, D::UseAnotherServer, D::ServerMoved, D::SharedSubscriptionNotSupported,
            D::ConnectionRateExceeded, D::MaximumConnectTime, D::SubscriptionIdentifiersNotSupported, D::WildcardSubscriptionsNotSupported,
        ] {
            g.push(c5::Packet::Disconnect(c5::Disconnect { reason_code, properties: None }));
        }
    }
    if !reduced {
        // every packet id 1..=65535 in every id-carrying packet type (quick tier: the ids around
        // every byte / width boundary only)
        for id in (1..=u16::MAX).filter(|&i| all_ids || id_near_boundary(i)) {
            g.push(c5::Packet::PubAck(c5::PubAck { pkid: id, reason: c5::PubAckReason::Success, properties: None }));
            g.push(c5::Packet::PubRec(c5::PubRec { pkid: id, reason: c5::PubRecReason::UnspecifiedError, properties: None }));
            g.push(c5::Packet::PubRel(c5::PubRel { pkid: id, reason: c5::PubRelReason::Success, properties: None }));
            g.push(c5::Packet::PubComp(c5::PubComp { pkid: id, reason: c5::PubCompReason::PacketIdentifierNotFound, properties: None }));
            g.push(c5::Packet::SubAck(c5::SubAck { pkid: id, return_codes: vec![c5::SubscribeReasonCode::Success(c5b::QoS::AtLeastOnce)], properties: None }));
            g.push(c5::Packet::UnsubAck(c5::UnsubAck { pkid: id, reasons: vec![c5::UnsubAckReason::Success], properties: None }));
            let mut s = c5::Subscribe::new(c5::Filter::new("a", c5b::QoS::AtMostOnce), None);
            s.pkid = id;
            g.push(c5::Packet::Subscribe(s));
            let mut u = c5::Unsubscribe::new("a", None);
            u.pkid = id;
            g.push(c5::Packet::Unsubscribe(u));
            let mut p = c5::Publish::new("a", c5b::QoS::ExactlyOnce, vec![1u8], None);
            p.pkid = id;
            g.push(c5::Packet::Publish(p));
        }
    }
    g.push(c5::Packet::PingReq(c5::PingReq));
    g.push(c5::Packet::PingResp(c5::PingResp));
    g
}

fn width_ok(bytes: &[u8]) -> bool {
    // the remaining length uses the minimal number of bytes
    match declared(bytes) {
        Ok(Some((h, rem))) => {
            let want = if rem >= 2_097_152 {
                4
            } else if rem >= 16_384 {
                3
            } else if rem >= 128 {
                2
            } else {
                1
            };
            h - 1 == want
        }
        _ => false,
    }
}

struct C4Ctx<'a> {
    reporter: &'a Reporter,
    evals: AtomicU64,
    nontrivial: AtomicU64,
}

fn v4fail(ctx: &C4Ctx, code: &str, what: &str, pkt: &str, bytes: &[u8]) {
    let v = Violation::new(P4, code, format!("{what}; packet {}", pkt.chars().take(300).collect::<String>()));
    ctx.reporter.report(&v, || json!({"engine":"e3_codec","mode":"roundtrip","bytes": &bytes[..bytes.len().min(4096)], "packet": pkt.chars().take(600).collect::<String>()}));
}

/// broker round trip of a frame: decode, re-encode, decode again; returns the re-encoded bytes
/// What the broker's decoded value must show (fragments of its `Debug` rendering, in the
/// broker's own field names) for a packet value of the client library: a projection that does
/// not go through the broker's encoder, so that an error the broker makes symmetrically in
/// reading and writing a field cannot cancel out.
fn broker_view(kind: &str, pkid: u16, extra: Vec<String>) -> Vec<String> {
    let mut v = vec![format!("{kind} {{ pkid: {pkid}")];
    v.extend(extra);
    v
}

fn expect_in_broker_c4(p: &c4::Packet) -> Vec<String> {
    match p {
        c4::Packet::Publish(p) => vec![format!(
            "Publish {{ dup: {:?}, qos: {:?}, pkid: {}, retain: {:?}, topic: {:?}, payload: {:?} }}",
            p.dup,
            p.qos,
            p.pkid,
            p.retain,
            Bytes::copy_from_slice(p.topic.as_bytes()),
            p.payload
        )],
        c4::Packet::Subscribe(s) => broker_view("Subscribe", s.pkid, s.filters.iter().map(|f| format!("Filter {{ path: {:?}, qos: {:?},", f.path, f.qos)).collect()),
        c4::Packet::Unsubscribe(u) => vec![format!("Unsubscribe {{ pkid: {}, filters: {:?} }}", u.pkid, u.topics)],
        c4::Packet::Connect(c) => vec![format!("Connect {{ keep_alive: {}, client_id: {:?}, clean_session: {:?} }}", c.keep_alive, c.client_id, c.clean_session)],
        c4::Packet::PubAck(a) => broker_view("PubAck", a.pkid, vec![]),
        c4::Packet::PubRec(a) => broker_view("PubRec", a.pkid, vec![]),
        c4::Packet::PubRel(a) => broker_view("PubRel", a.pkid, vec![]),
        c4::Packet::PubComp(a) => broker_view("PubComp", a.pkid, vec![]),
        _ => vec![],
    }
}

fn expect_in_broker_c5(p: &c5::Packet) -> Vec<String> {
    match p {
        c5::Packet::Publish(p) => vec![format!(
            "Publish {{ dup: {:?}, qos: {:?}, pkid: {}, retain: {:?}, topic: {:?}, payload: {:?} }}",
            p.dup, p.qos, p.pkid, p.retain, p.topic, p.payload
        )],
        // (the subscription options as well: both libraries name the fields alike)
        c5::Packet::Subscribe(s) => broker_view("Subscribe", s.pkid, s.filters.iter().map(|f| format!("{f:?}")).collect()),
        c5::Packet::Unsubscribe(u) => vec![format!("Unsubscribe {{ pkid: {}, filters: {:?} }}", u.pkid, u.filters)],
        c5::Packet::Connect(c, ..) => vec![format!("Connect {{ keep_alive: {}, client_id: {:?}, clean_session: {:?} }}", c.keep_alive, c.client_id, c.clean_start)],
        c5::Packet::PubAck(a) => broker_view("PubAck", a.pkid, vec![]),
        c5::Packet::PubRec(a) => broker_view("PubRec", a.pkid, vec![]),
        c5::Packet::PubRel(a) => broker_view("PubRel", a.pkid, vec![]),
        c5::Packet::PubComp(a) => broker_view("PubComp", a.pkid, vec![]),
        _ => vec![],
    }
}

fn broker_loop(ctx: &C4Ctx, bytes: &[u8], v5: bool, pkt: &str) -> Option<Vec<u8>> {
    broker_loop_expect(ctx, bytes, v5, pkt, &[])
}

fn broker_loop_expect(ctx: &C4Ctx, bytes: &[u8], v5: bool, pkt: &str, expect: &[String]) -> Option<Vec<u8>> {
    let codec = if v5 { Codec::B5 } else { Codec::B4 };
    let mut buf = BytesMut::from(bytes);
    buf.extend_from_slice(&[0xAA, 0xBB]); // sentinel: must stay untouched
    ctx.evals.fetch_add(3, Ordering::Relaxed);
    let first = catch(|| if v5 { bp::v5::V5.read_mut(&mut buf, usize::MAX >> 1) } else { bp::v4::V4.read_mut(&mut buf, usize::MAX >> 1) });
    let p = match first {
        Err(e) => {
            v4fail(ctx, "broker_decode_panic", &format!("{} panicked on client-encoded bytes: {e}", codec.name()), pkt, bytes);
            return None;
        }
        Ok(Err(e)) => {
            v4fail(ctx, "broker_rejects_client_bytes", &format!("{} rejects what the client encoder wrote: {e:?}", codec.name()), pkt, bytes);
            return None;
        }
        Ok(Ok(p)) => p,
    };
    if &buf[..] != [0xAA, 0xBB] {
        v4fail(ctx, "broker_consumed_wrong_length", &format!("{} left {} bytes of a frame + 2 sentinel bytes", codec.name(), buf.len()), pkt, bytes);
        return None;
    }
    if !expect.is_empty() {
        let dbg = format!("{p:?}");
        for e in expect {
            if !dbg.contains(e.as_str()) {
                v4fail(ctx, "broker_decodes_differently", &format!("{} decoded {}, which does not show {e}", codec.name(), dbg.chars().take(300).collect::<String>()), pkt, bytes);
                return None;
            }
        }
    }
    let mut out = BytesMut::new();
    let written = catch(|| if v5 { bp::v5::V5.write(p.clone(), &mut out) } else { bp::v4::V4.write(p.clone(), &mut out) });
    match written {
        Err(e) => {
            v4fail(ctx, "broker_encode_panic", &format!("{} panicked encoding {p:?}: {e}", codec.name()), pkt, bytes);
            return None;
        }
        Ok(Err(e)) => {
            v4fail(ctx, "broker_encode_error", &format!("{} cannot encode what it decoded ({e:?})", codec.name()), pkt, bytes);
            return None;
        }
        Ok(Ok(n)) => {
            if n != out.len() {
                v4fail(ctx, "broker_size_mismatch", &format!("{} reported {n} bytes written, wrote {}", codec.name(), out.len()), pkt, bytes);
            }
        }
    }
    if !width_ok(&out) {
        v4fail(ctx, "broker_length_width", &format!("{} did not use the minimal remaining-length width", codec.name()), pkt, &out);
    }
    // broker's own round trip
    let mut again = BytesMut::from(&out[..]);
    let second = catch(|| if v5 { bp::v5::V5.read_mut(&mut again, usize::MAX >> 1) } else { bp::v4::V4.read_mut(&mut again, usize::MAX >> 1) });
    match second {
        Ok(Ok(p2)) if p2 == p && again.is_empty() => {}
        other => {
            v4fail(ctx, "broker_roundtrip", &format!("{} does not read back what it wrote: {:?}", codec.name(), other.map(|r| r.map(|p| format!("{p:?}").chars().take(200).collect::<String>()))), pkt, &out);
            return None;
        }
    }
    Some(out.to_vec())
}

pub fn run_c04(tier: Tier) -> i32 {
    let reporter = Reporter::new(P4);
    let mut ev = Evidence::new(P4, tier);
    let ctx = C4Ctx { reporter: &reporter, evals: AtomicU64::new(0), nontrivial: AtomicU64::new(0) };
    let quick = tier == Tier::Quick;
    // quick: the whole grid, with the packet-id sweep restricted to ids near byte boundaries
    let g4 = grid_v4(false, !quick);
    let g5 = grid_v5(false, !quick);
    // ---- client v4 values
    g4.par_iter().for_each(|p| {
        let pkt = format!("{p:?}");
        let mut b = BytesMut::new();
        ctx.evals.fetch_add(2, Ordering::Relaxed);
        let n = match catch(|| p.write(&mut b, usize::MAX)) {
            Ok(Ok(n)) => n,
            other => return v4fail(&ctx, "client_encode", &format!("rumqttc v4 encoder failed: {other:?}"), &pkt, &[]),
        };
        if n != b.len() || p.size() != b.len() {
            v4fail(&ctx, "client_size_mismatch", &format!("rumqttc v4: size() = {}, write returned {n}, {} bytes written", p.size(), b.len()), &pkt, &b);
        }
        if !width_ok(&b) {
            v4fail(&ctx, "client_length_width", "rumqttc v4 did not use the minimal remaining-length width", &pkt, &b);
        }
        let mut r = BytesMut::from(&b[..]);
        r.extend_from_slice(&[0xAA, 0xBB]);
        match catch(|| c4::Packet::read(&mut r, usize::MAX)) {
            Ok(Ok(p2)) if p2 == *p && r[..] == [0xAA, 0xBB] => {}
            other => return v4fail(&ctx, "client_roundtrip", &format!("rumqttc v4 does not read back what it wrote ({} bytes left): {:?}", r.len(), other.map(|r| r.map(|p| format!("{p:?}").chars().take(200).collect::<String>()))), &pkt, &b),
        }
        ctx.nontrivial.fetch_add(1, Ordering::Relaxed);
        // client -> broker -> client
        if let Some(back) = broker_loop_expect(&ctx, &b, false, &pkt, &expect_in_broker_c4(p)) {
            let mut r = BytesMut::from(&back[..]);
            ctx.evals.fetch_add(1, Ordering::Relaxed);
            match catch(|| c4::Packet::read(&mut r, usize::MAX)) {
                Ok(Ok(p2)) if p2 == *p && r.is_empty() => {}
                other => v4fail(&ctx, "cross_v4", &format!("client v4 -> broker v4 -> client v4 changed the packet: {:?}", other.map(|r| r.map(|p| format!("{p:?}").chars().take(300).collect::<String>()))), &pkt, &back),
            }
        }
    });
    // ---- client v5 values
    g5.par_iter().for_each(|p| {
        let pkt = format!("{p:?}");
        let mut b = BytesMut::new();
        ctx.evals.fetch_add(2, Ordering::Relaxed);
        let n = match catch(|| p.write(&mut b, None)) {
            Ok(Ok(n)) => n,
            other => return v4fail(&ctx, "client_encode", &format!("rumqttc v5 encoder failed: {other:?}"), &pkt, &[]),
        };
        if n != b.len() || p.size() != b.len() {
            v4fail(&ctx, "client_size_mismatch", &format!("rumqttc v5: size() = {}, write returned {n}, {} bytes written", p.size(), b.len()), &pkt, &b);
        }
        if !width_ok(&b) {
            v4fail(&ctx, "client_length_width", "rumqttc v5 did not use the minimal remaining-length width", &pkt, &b);
        }
        let mut r = BytesMut::from(&b[..]);
        r.extend_from_slice(&[0xAA, 0xBB]);
        match catch(|| c5::Packet::read(&mut r, None)) {
            Ok(Ok(p2)) if p2 == *p && r[..] == [0xAA, 0xBB] => {}
            other => return v4fail(&ctx, "client_roundtrip", &format!("rumqttc v5 does not read back what it wrote ({} bytes left): {:?}", r.len(), other.map(|r| r.map(|p| format!("{p:?}").chars().take(200).collect::<String>()))), &pkt, &b),
        }
        ctx.nontrivial.fetch_add(1, Ordering::Relaxed);
        if let Some(back) = broker_loop_expect(&ctx, &b, true, &pkt, &expect_in_broker_c5(p)) {
            let mut r = BytesMut::from(&back[..]);
            ctx.evals.fetch_add(1, Ordering::Relaxed);
            match catch(|| c5::Packet::read(&mut r, None)) {
                Ok(Ok(p2)) if p2 == *p && r.is_empty() => {}
                other => v4fail(&ctx, "cross_v5", &format!("client v5 -> broker v5 -> client v5 changed the packet: {:?}", other.map(|r| r.map(|p| format!("{p:?}").chars().take(300).collect::<String>()))), &pkt, &back),
            }
        }
    });
    // ---- broker-native shapes (what the router emits): must decode in the client
    let shapes = broker_shapes();
    for (p, v5) in shapes.iter() {
        let pkt = format!("{p:?}");
        let mut out = BytesMut::new();
        ctx.evals.fetch_add(2, Ordering::Relaxed);
        let w = catch(|| if *v5 { bp::v5::V5.write(p.clone(), &mut out) } else { bp::v4::V4.write(p.clone(), &mut out) });
        match w {
            Ok(Ok(n)) if n == out.len() => {}
            other => {
                v4fail(&ctx, "broker_native_encode", &format!("broker (v5={v5}) cannot encode its own notification or misreports the size: {other:?} vs {} bytes", out.len()), &pkt, &out);
                continue;
            }
        }
        let mut r = BytesMut::from(&out[..]);
        let res = if *v5 { catch(|| c5::Packet::read(&mut r, None).map(|p| format!("{p:?}"))).map(|r| r.map_err(|e| format!("{e:?}"))) } else { catch(|| c4::Packet::read(&mut r, usize::MAX).map(|p| format!("{p:?}"))).map(|r| r.map_err(|e| format!("{e:?}"))) };
        match res {
            Ok(Ok(_)) if r.is_empty() => {
                ctx.nontrivial.fetch_add(1, Ordering::Relaxed);
            }
            other => v4fail(&ctx, "client_rejects_broker_bytes", &format!("client (v5={v5}) cannot decode what the broker wrote ({} bytes left): {other:?}", r.len()), &pkt, &out),
        }
    }
    // ---- shapes only the router builds (a forward keeps the publisher's packet id when the
    // subscription lowers it to QoS 0, acknowledgements and forwards of every QoS towards
    // both versions): taken from the real router through the real connection tasks — every
    // pair of protocol versions x publisher QoS x subscription QoS; whatever reaches a client
    // must be decodable there, frame by frame, with the topic and payload that were sent
    let flows = crate::e7_flow::flows("C20", true);
    let flow_bad: Vec<(String, String, serde_json::Value)> = flows
        .par_iter()
        .filter_map(|f| {
            let o = crate::e7_flow::run_flow(f);
            let viols = crate::e7_flow::judge(P4, f, &o);
            let v = viols.iter().find(|v| matches!(v.code.as_str(), "client_cannot_decode" | "spurious_forward" | "unexpected_forward" | "undelivered" | "unexpected_reply" | "missing_reply" | "connection_task_panic"))?;
            let o2 = crate::e7_flow::run_flow(f);
            if crate::e7_flow::judge(P4, f, &o2) != viols {
                crate::vcore::machinery_error("E7 flow under C04 is not deterministic");
            }
            Some((v.code.clone(), v.detail.clone(), json!({"engine": "e7_flow", "prop": "C04", "flow": f})))
        })
        .collect();
    for (code, detail, replay) in flow_bad {
        ctx.reporter.report(&Violation::new(P4, "router_built_packet_not_decodable", format!("{code}: {detail}")), || replay);
    }
    ctx.evals.fetch_add(flows.len() as u64, Ordering::Relaxed);
    ev.set("router_built_shapes", json!({"fullstack_flows": flows.len(), "what": "publisher version x subscriber version x publisher QoS x subscription QoS, with and without MQTT 5 properties, through the real router and connection tasks"}));
    let evals = ctx.evals.load(Ordering::Relaxed);
    ev.states = (g4.len() + g5.len() + shapes.len() + flows.len()) as u64;
    ev.transitions = evals;
    ev.traces_validated = evals;
    ev.set("evaluations", json!(evals));
    ev.set("distinct_nontrivial", json!(ctx.nontrivial.load(Ordering::Relaxed)));
    ev.set("grid", json!({"client_v4_packets": g4.len(), "client_v5_packets": g5.len(), "broker_native_shapes": shapes.len()}));
    ev.set("rule", json!("grid = cartesian products of small per-field domains for every packet type (flags, ids {1,2,255,256,65535} and in the thorough tier every id 1..=65535 in every id-carrying packet type, strings of 0/1/127/128/65535 bytes, payloads placing the remaining length at every width boundary, every subset of PUBLISH / CONNECT / will / DISCONNECT properties, CONNACK property singletons+pairs+all, 1-3 filters / codes); each value: encode, size, width, decode with sentinel, client->broker->client equality, broker own round trip; non-trivial = packets that round-trip in their own codec"));
    ev.sample(json!(format!("{:?}", g4[g4.len() / 2]).chars().take(200).collect::<String>()));
    ev.sample(json!(format!("{:?}", g5[g5.len() / 3]).chars().take(300).collect::<String>()));
    ev.assumptions = vec!["values outside the grid are not covered; equality is the codec's own PartialEq on the client-side structs after a full loop through the broker".into()];
    ev.violations = reporter.new_violations();
    let code = reporter.finish();
    ev.write();
    println!("C04 {}: packets={} evaluations={}", tier.name(), ev.states, evals);
    code
}

/// notification shapes the routing core produces (acks, forwards, disconnects, connacks)
fn broker_shapes() -> Vec<(bp::Packet, bool)> {
    let mut v = vec![];
    for v5 in [false, true] {
        for code in [bp::DisconnectReasonCode::NormalDisconnection, bp::DisconnectReasonCode::ProtocolError, bp::DisconnectReasonCode::TopicAliasInvalid, bp::DisconnectReasonCode::MalformedPacket] {
            v.push((bp::Packet::Disconnect(bp::Disconnect { reason_code: code }, None), v5));
        }
        for sp in [false, true] {
            v.push((bp::Packet::ConnAck(bp::ConnAck { session_present: sp, code: bp::ConnectReturnCode::Success }, None), v5));
            if v5 {
                let props = bp::ConnAckProperties { topic_alias_max: Some(4096), ..Default::default() };
                v.push((bp::Packet::ConnAck(bp::ConnAck { session_present: sp, code: bp::ConnectReturnCode::Success }, Some(props)), v5));
                let mut props = bp::ConnAckProperties { topic_alias_max: Some(4096), ..Default::default() };
                props.assigned_client_identifier = Some("rumqtt-x".into());
                v.push((bp::Packet::ConnAck(bp::ConnAck { session_present: sp, code: bp::ConnectReturnCode::Success }, Some(props)), v5));
            }
        }
        for id in [1u16, 100, 65535] {
            v.push((bp::Packet::PubAck(bp::PubAck { pkid: id, reason: bp::PubAckReason::Success }, None), v5));
            v.push((bp::Packet::PubRec(bp::PubRec { pkid: id, reason: bp::PubRecReason::Success }, None), v5));
            v.push((bp::Packet::PubRel(bp::PubRel { pkid: id, reason: bp::PubRelReason::Success }, None), v5));
            v.push((bp::Packet::PubComp(bp::PubComp { pkid: id, reason: bp::PubCompReason::Success }, None), v5));
            v.push((bp::Packet::UnsubAck(bp::UnsubAck { pkid: id, reasons: vec![bp::UnsubAckReason::Success] }, None), v5));
            v.push((bp::Packet::UnsubAck(bp::UnsubAck { pkid: id, reasons: vec![bp::UnsubAckReason::Success, bp::UnsubAckReason::NoSubscriptionExisted] }, None), v5));
            v.push((bp::Packet::SubAck(bp::SubAck { pkid: id, return_codes: vec![bp::SubscribeReasonCode::QoS0, bp::SubscribeReasonCode::QoS1, bp::SubscribeReasonCode::QoS2] }, None), v5));
        }
        v.push((bp::Packet::PingResp(bp::PingResp), v5));
    }
    v
}

pub fn replay(v: &serde_json::Value) -> i32 {
    let bytes: Vec<u8> = serde_json::from_value(v["bytes"].clone()).unwrap_or_default();
    println!("bytes: {:02x?}", &bytes[..bytes.len().min(64)]);
    let max = v["max"].as_u64().unwrap_or(1 << 20) as usize;
    let mut bad = false;
    for c in CODECS {
        for round in 0..2 {
            let mut b = BytesMut::from(&bytes[..]);
            let r = c.decode(&mut b, max);
            if round == 1 {
                println!("  {} -> {:?} (consumed {})", c.name(), r.as_ref().map(|d| format!("{d:?}").chars().take(160).collect::<String>()), bytes.len() - b.len());
                if r.is_err() {
                    bad = true;
                }
            }
        }
    }
    println!("declared frame: {:?}; recorded packet: {}", declared(&bytes), v["packet"]);
    if bad {
        println!("replay: violation reproduced (decoder panic)");
        1
    } else {
        println!("replay: see the decoder answers above against the recorded detail");
        0
    }
}
