//! E4 — all (topic, filter) pairs over a small alphabet against the MQTT rules, for the
//! three copies of the matching / validation functions (property C12).
use crate::vcore::evidence::Evidence;
use crate::vcore::findings::Reporter;
use crate::vcore::{catch, Tier, Violation};
use rayon::prelude::*;
use serde_json::json;
use std::sync::atomic::{AtomicU64, Ordering};

const P: &str = "C12";

type F2 = fn(&str, &str) -> bool;
type F1 = fn(&str) -> bool;

struct Copy3 {
    name: &'static str,
    matches: F2,
    valid_filter: F1,
    valid_topic: F1,
    has_wildcards: F1,
}

fn copies() -> [Copy3; 3] {
    [
        Copy3 {
            name: "rumqttc::mqttbytes (v4)",
            matches: rumqttc::mqttbytes::matches,
            valid_filter: rumqttc::mqttbytes::valid_filter,
            valid_topic: rumqttc::mqttbytes::valid_topic,
            has_wildcards: rumqttc::mqttbytes::has_wildcards,
        },
        Copy3 {
            name: "rumqttc::v5::mqttbytes",
            matches: rumqttc::v5::mqttbytes::matches,
            valid_filter: rumqttc::v5::mqttbytes::valid_filter,
            valid_topic: rumqttc::v5::mqttbytes::valid_topic,
            has_wildcards: rumqttc::v5::mqttbytes::has_wildcards,
        },
        Copy3 {
            name: "rumqttd::protocol",
            matches: rumqttd::protocol::matches,
            valid_filter: rumqttd::protocol::valid_filter,
            valid_topic: rumqttd::protocol::valid_topic,
            has_wildcards: rumqttd::protocol::has_wildcards,
        },
    ]
}

// ---- reference, written from the rules quoted in the property statement ----

fn ref_has_wildcards(s: &str) -> bool {
    s.chars().any(|c| c == '+' || c == '#')
}

fn ref_valid_topic(t: &str) -> bool {
    !ref_has_wildcards(t)
}

fn ref_valid_filter(f: &str) -> bool {
    if f.is_empty() {
        return false;
    }
    let levels: Vec<&str> = f.split('/').collect();
    let n = levels.len();
    for (i, l) in levels.iter().enumerate() {
        if l.contains('#') && (*l != "#" || i + 1 != n) {
            return false;
        }
        if l.contains('+') && *l != "+" {
            return false;
        }
    }
    true
}

/// Defined for valid topics and valid filters only.
pub fn ref_matches(topic: &str, filter: &str) -> bool {
    if topic.starts_with('$') {
        return false;
    }
    let t: Vec<&str> = topic.split('/').collect();
    let f: Vec<&str> = filter.split('/').collect();
    let mut i = 0;
    loop {
        match (f.get(i), t.get(i)) {
            (Some(&"#"), _) => return true, // parent and any number of levels
            (Some(&"+"), Some(_)) => {}
            (Some(fl), Some(tl)) if fl == tl => {}
            (None, None) => return true,
            _ => return false,
        }
        i += 1;
    }
}

fn strings(alphabet: &[char], max_len: usize) -> Vec<String> {
    let mut out = vec![String::new()];
    let mut level = vec![String::new()];
    for _ in 0..max_len {
        let mut next = Vec::with_capacity(level.len() * alphabet.len());
        for s in &level {
            for c in alphabet {
                let mut n = s.clone();
                n.push(*c);
                next.push(n);
            }
        }
        out.extend(next.iter().cloned());
        level = next;
    }
    out
}

fn check_unary(s: &str, cs: &[Copy3; 3], reporter: &Reporter, evals: &AtomicU64) {
    let table: [(&str, fn(&Copy3) -> F1, fn(&str) -> bool); 3] = [
        ("valid_filter", |c| c.valid_filter, ref_valid_filter),
        ("valid_topic", |c| c.valid_topic, ref_valid_topic),
        ("has_wildcards", |c| c.has_wildcards, ref_has_wildcards),
    ];
    for (fname, get, reference) in table {
        let want = reference(s);
        for c in cs.iter() {
            evals.fetch_add(1, Ordering::Relaxed);
            let f = get(c);
            match catch(|| f(s)) {
                Err(p) => {
                    let v = Violation::new(P, format!("{fname}_panic"), format!("{}::{fname}({s:?}) panicked: {p}", c.name));
                    reporter.report(&v, || json!({"engine":"e4_topicgrid","topic":s,"filter":s}));
                }
                Ok(got) if got != want => {
                    let v = Violation::new(P, format!("{fname}_wrong"), format!("{}::{fname}({s:?}) = {got}, MQTT rules say {want}", c.name));
                    reporter.report(&v, || json!({"engine":"e4_topicgrid","topic":s,"filter":s}));
                }
                _ => {}
            }
        }
    }
}

/// Returns (evaluations, reference-true?) for one pair.
fn check_pair(topic: &str, filter: &str, cs: &[Copy3; 3], reporter: &Reporter) -> bool {
    let mut results: [Option<bool>; 3] = [None; 3];
    for (i, c) in cs.iter().enumerate() {
        let f = c.matches;
        match catch(|| f(topic, filter)) {
            Ok(b) => results[i] = Some(b),
            Err(p) => {
                let v = Violation::new(
                    P,
                    "matches_panic",
                    format!("{}::matches({topic:?}, {filter:?}) panicked: {p}", c.name),
                );
                reporter.report(&v, || json!({"engine":"e4_topicgrid","topic":topic,"filter":filter}));
            }
        }
    }
    if results.iter().all(|r| r.is_some()) && !(results[0] == results[1] && results[1] == results[2]) {
        let v = Violation::new(
            P,
            "copies_disagree",
            format!("matches({topic:?}, {filter:?}): v4 client {:?}, v5 client {:?}, broker {:?}", results[0], results[1], results[2]),
        );
        reporter.report(&v, || json!({"engine":"e4_topicgrid","topic":topic,"filter":filter}));
    }
    if ref_valid_topic(topic) && ref_valid_filter(filter) {
        let want = ref_matches(topic, filter);
        for (i, c) in cs.iter().enumerate() {
            if let Some(got) = results[i] {
                if got != want {
                    let v = Violation::new(
                        P,
                        "matches_wrong",
                        format!("{}::matches({topic:?}, {filter:?}) = {got}, MQTT rules say {want}", c.name),
                    );
                    reporter.report(&v, || json!({"engine":"e4_topicgrid","topic":topic,"filter":filter}));
                }
            }
        }
        return want;
    }
    false
}

pub fn run(tier: Tier) -> i32 {
    let reporter = Reporter::new(P);
    let mut ev = Evidence::new(P, tier);
    let cs = copies();
    let sigma7 = ['a', 'b', '/', '+', '#', '$', 'é'];
    let sigma9 = ['a', 'A', 'b', '/', '+', '#', '$', 'é', '中'];
    let grids: Vec<(&str, Vec<String>)> = match tier {
        Tier::Quick => vec![("sigma7^<=4", strings(&sigma7, 4)), ("sigma9^<=3", strings(&sigma9, 3))],
        Tier::Thorough => vec![
            ("sigma7^<=5", strings(&sigma7, 5)),
            ("sigma9^<=4", strings(&sigma9, 4)),
        ],
    };
    let evals = AtomicU64::new(0);
    let mut pairs_total = 0u64;
    let mut true_total = 0u64;
    let mut valid_pairs_total = 0u64;
    let mut grid_info = vec![];
    for (name, ss) in grids.iter() {
        ss.par_iter().for_each(|s| check_unary(s, &cs, &reporter, &evals));
        let valid_topics = ss.iter().filter(|s| ref_valid_topic(s)).count() as u64;
        let valid_filters = ss.iter().filter(|s| ref_valid_filter(s)).count() as u64;
        let trues: u64 = ss
            .par_iter()
            .map(|t| {
                let mut n = 0u64;
                for f in ss.iter() {
                    if check_pair(t, f, &cs, &reporter) {
                        n += 1;
                    }
                }
                n
            })
            .sum();
        let pairs = (ss.len() as u64) * (ss.len() as u64);
        evals.fetch_add(pairs * 3, Ordering::Relaxed);
        pairs_total += pairs;
        true_total += trues;
        valid_pairs_total += valid_topics * valid_filters;
        grid_info.push(json!({"grid": name, "strings": ss.len(), "pairs": pairs, "valid_topic_x_valid_filter_pairs": valid_topics*valid_filters, "pairs_matching_by_reference": trues}));
    }
    // one length further on the domain where the result is defined: every valid topic against
    // every valid filter (the unary functions still see every string of that length)
    {
        let bound = if tier == Tier::Quick { 5 } else { 6 };
        let all = strings(&sigma7, bound);
        all.par_iter().for_each(|s| check_unary(s, &cs, &reporter, &evals));
        let topics: Vec<&String> = all.iter().filter(|s| ref_valid_topic(s)).collect();
        let filters: Vec<&String> = all.iter().filter(|s| ref_valid_filter(s)).collect();
        let trues: u64 = topics
            .par_iter()
            .map(|t| filters.iter().filter(|f| check_pair(t, f, &cs, &reporter)).count() as u64)
            .sum();
        let pairs = topics.len() as u64 * filters.len() as u64;
        evals.fetch_add(pairs * 3, Ordering::Relaxed);
        pairs_total += pairs;
        true_total += trues;
        valid_pairs_total += pairs;
        grid_info.push(json!({"grid": format!("sigma7^<={bound}, valid topics x valid filters"), "strings": all.len(), "topics": topics.len(), "filters": filters.len(), "pairs": pairs, "valid_topic_x_valid_filter_pairs": pairs, "pairs_matching_by_reference": trues}));
    }
    if true_total < 2 {
        crate::vcore::machinery_error("C12: vacuous grid (no matching pair)");
    }
    ev.states = pairs_total;
    ev.transitions = evals.load(Ordering::Relaxed);
    ev.traces_validated = ev.transitions;
    ev.set("evaluations", json!(ev.transitions));
    ev.set("distinct_nontrivial", json!(true_total));
    ev.set("valid_pairs_compared_with_reference", json!(valid_pairs_total));
    ev.set("grids", json!(grid_info));
    ev.set("rule", json!("every ordered pair of strings over the alphabet up to the length bound: no panic and three-copy agreement on all pairs; equality with an independent reference on all (valid topic, valid filter) pairs; the three unary functions compared with the reference on every string. states = pairs, transitions = real function evaluations, distinct_nontrivial = pairs the reference says match"));
    ev.sample(json!({"topic":"a/b","filter":"a/+","reference":ref_matches("a/b","a/+")}));
    ev.sample(json!({"topic":"é/a","filter":"+/#","reference":ref_matches("é/a","+/#")}));
    ev.sample(json!({"topic":"$a","filter":"#","reference":ref_matches("$a","#")}));
    let grid_assumptions: Vec<String> = vec![
        "alphabet {a,b,/,+,#,$,é} (plus A and 中 in the 9-symbol grid); strings longer than the bound are not enumerated".into(),
        "reference implementation of the MQTT matching rules in engine/src/e4_topicgrid.rs".into(),
    ];
    // the broker's effective routing (DataLog::matches and its per-topic cache) on the stepped
    // router: delivery must follow the same rules, whatever the order of subscriptions and
    // publishes
    crate::e1::run::explore_plans("C12", tier, &reporter, &mut ev, 0.5);
    ev.assumptions.extend(grid_assumptions);
    ev.assumptions.push("routing part: 15 filter shapes x 5 topics on the real router (E1), all orders of subscribe/unsubscribe/publish up to depth 4 (quick) / 5 (thorough)".into());
    ev.violations = reporter.new_violations();
    let code = reporter.finish();
    ev.write();
    println!("C12 {}: pairs={} evaluations={} matching={}", tier.name(), pairs_total, ev.transitions, true_total);
    code
}

pub fn replay(v: &serde_json::Value) -> i32 {
    let topic = v["topic"].as_str().unwrap_or("");
    let filter = v["filter"].as_str().unwrap_or("");
    let cs = copies();
    let mut bad = 0;
    for round in 0..2 {
        for c in cs.iter() {
            let f = c.matches;
            let r = catch(|| f(topic, filter));
            if round == 1 {
                println!("  {}::matches({topic:?}, {filter:?}) -> {:?}", c.name, r);
            }
            let want = ref_matches(topic, filter);
            let defined = ref_valid_topic(topic) && ref_valid_filter(filter);
            if round == 1 && (r.is_err() || (defined && r != Ok(want))) {
                bad += 1;
            }
            for (name, g, rf) in [
                ("valid_filter", c.valid_filter, ref_valid_filter as fn(&str) -> bool),
                ("valid_topic", c.valid_topic, ref_valid_topic),
                ("has_wildcards", c.has_wildcards, ref_has_wildcards),
            ] {
                for s in [topic, filter] {
                    let r = catch(|| g(s));
                    if round == 1 && r != Ok(rf(s)) {
                        println!("  {}::{name}({s:?}) -> {:?}, reference {}", c.name, r, rf(s));
                        bad += 1;
                    }
                }
            }
        }
    }
    println!(
        "  reference: valid_topic={} valid_filter={} matches={}",
        ref_valid_topic(topic),
        ref_valid_filter(filter),
        ref_matches(topic, filter)
    );
    if bad > 0 {
        println!("replay: violation reproduced");
        1
    } else {
        println!("replay: no violation");
        0
    }
}
