//! E6 `fullstack` — the real per-connection task (`server::remote`, i.e. `mqtt_connect`,
//! `RemoteLink::new`, `RemoteLink::start`) over an in-memory stream, with the real `Router`
//! stepped by the harness thread. Used for admission (C19) and for binding E1's link
//! life-cycle model to the code (which events a link emits for each way of ending).
use crate::vcore::{catch, Violation};
use bytes::BytesMut;
use rumqttd::protocol::{v4::V4, v5::V5};
use rumqttd::verif::{verif_remote, Event, VerifWillHandlers};
use rumqttd::{ConnectionSettings, Router, RouterConfig};
use serde::{Deserialize, Serialize};
use std::collections::HashMap;
use std::sync::atomic::{AtomicBool, Ordering};
use std::sync::Arc;
use std::time::Duration;
use tokio::io::{AsyncReadExt, AsyncWriteExt};

#[derive(Clone, Debug, Serialize, Deserialize, PartialEq, Eq, Hash)]
pub enum Op {
    /// client writes these bytes
    Write(Vec<u8>),
    /// advance the paused clock (ms)
    Advance(u64),
    /// client closes its end
    Close,
}

#[derive(Clone, Debug, Serialize, Deserialize)]
pub struct Scenario {
    pub v5_listener: bool,
    /// 0 none, 1 static map {u: p}, 2 external callback accepting (u, p), 3 both (the
    /// static map then holds different credentials {x: y})
    pub auth: u8,
    pub timeout_ms: u16,
    pub ops: Vec<Op>,
    pub max_connections: usize,
    /// filters whose logs exist from the start (what is published on them can be counted)
    #[serde(default)]
    pub init_filters: Vec<String>,
}

#[derive(Clone, Debug, Default, PartialEq, Eq)]
pub struct Outcome {
    /// everything the broker wrote on the transport
    pub written: Vec<u8>,
    /// kinds of events the link put on the router channel, in order
    pub events: Vec<String>,
    /// client ids registered in the router at the end
    pub registered: Vec<String>,
    pub task_finished: bool,
    pub subscriptions: usize,
    pub panicked: Option<String>,
    /// (filter, number of messages in its log) at the end
    pub filter_entries: Vec<(String, u64)>,
    /// (topic, payload) of the retained messages at the end
    pub retained: Vec<(String, Vec<u8>)>,
}

fn settings(sc: &Scenario) -> ConnectionSettings {
    let mut s = ConnectionSettings {
        connection_timeout_ms: sc.timeout_ms,
        max_payload_size: 1 << 16,
        max_inflight_count: 100,
        auth: None,
        external_auth: None,
        dynamic_filters: false,
    };
    match sc.auth {
        1 => {
            s.auth = Some(HashMap::from([("u".to_string(), "p".to_string())]));
        }
        2 => s.set_auth_handler(|_id, u, p| async move { u == "u" && p == "p" }),
        3 => {
            s.auth = Some(HashMap::from([("x".to_string(), "y".to_string())]));
            s.set_auth_handler(|_id, u, p| async move { u == "u" && p == "p" });
        }
        _ => {}
    }
    s
}

fn event_kind(e: &Event) -> String {
    match e {
        Event::Connect { .. } => "Connect".into(),
        Event::DeviceData => "DeviceData".into(),
        Event::Disconnect => "Disconnect".into(),
        Event::Ready => "Ready".into(),
        Event::PublishWill(_) => "PublishWill".into(),
        other => format!("{other:?}").chars().take(20).collect(),
    }
}

/// Run one scenario: net thread = tokio runtime (paused clock) with the real `remote()`
/// task; this thread = the real router, fed one event at a time.
pub fn run_scenario(sc: &Scenario) -> Outcome {
    let cfg = RouterConfig {
        max_connections: sc.max_connections,
        max_outgoing_packet_count: 200,
        max_segment_size: 1 << 20,
        max_segment_count: 4,
        custom_segment: None,
        initialized_filters: if sc.init_filters.is_empty() { None } else { Some(sc.init_filters.clone()) },
        shared_subscriptions_strategy: Default::default(),
    };
    let mut router = Router::new(0, cfg);
    let tx = router.verif_link();
    let done = Arc::new(AtomicBool::new(false));
    let done2 = done.clone();
    // counts the passes in which the router thread found its channel empty: the net thread
    // waits for two of them after every step, so that what the connection task put on the
    // channel has been handled (and answered) before the script goes on — the outcome
    // must not depend on how the two threads are scheduled
    let idle_passes = Arc::new(std::sync::atomic::AtomicU64::new(0));
    let idle2 = idle_passes.clone();
    let sc2 = sc.clone();
    let net = std::thread::spawn(move || {
        let rt = tokio::runtime::Builder::new_current_thread().enable_time().start_paused(true).build().unwrap();
        let settle = move || {
            let idle = idle2.clone();
            async move {
                for _ in 0..4 {
                    for _ in 0..60 {
                        tokio::task::yield_now().await;
                    }
                    let g0 = idle.load(Ordering::SeqCst);
                    let mut spins = 0;
                    while idle.load(Ordering::SeqCst) < g0 + 2 && spins < 20_000 {
                        std::thread::sleep(Duration::from_micros(50));
                        spins += 1;
                    }
                }
                for _ in 0..60 {
                    tokio::task::yield_now().await;
                }
            }
        };
        let r = rt.block_on(async move {
            let (near, mut far) = tokio::io::duplex(1 << 16);
            let conf = Arc::new(settings(&sc2));
            let wills = VerifWillHandlers::default();
            let task = if sc2.v5_listener {
                tokio::spawn(verif_remote(conf, None, tx, Box::new(near), V5, wills))
            } else {
                tokio::spawn(verif_remote(conf, None, tx, Box::new(near), V4, wills))
            };
            let mut written = Vec::new();
            let mut closed = false;
            let mut far_opt = Some(&mut far);
            for op in sc2.ops.iter() {
                match op {
                    Op::Write(b) => {
                        if let Some(f) = far_opt.as_mut() {
                            let _ = f.write_all(b).await;
                        }
                    }
                    Op::Advance(ms) => tokio::time::advance(Duration::from_millis(*ms)).await,
                    Op::Close => {
                        closed = true;
                    }
                }
                settle().await;
                if closed {
                    if let Some(f) = far_opt.take() {
                        let _ = f.shutdown().await;
                    }
                    settle().await;
                }
                if let Some(f) = far_opt.as_mut() {
                    let mut tmp = [0u8; 4096];
                    while let Some(Ok(n)) = futures_util::FutureExt::now_or_never(f.read(&mut tmp)) {
                        if n == 0 {
                            break;
                        }
                        written.extend_from_slice(&tmp[..n]);
                    }
                }
            }
            if closed {
                drop(far);
            }
            settle().await;
            let finished = task.is_finished();
            let panicked = if finished {
                match task.await {
                    Err(e) if e.is_panic() => Some(format!("{e:?}")),
                    _ => None,
                }
            } else {
                task.abort();
                None
            };
            (written, finished, panicked)
        });
        done2.store(true, Ordering::SeqCst);
        r
    });
    let mut events = vec![];
    let mut idle_after_done = 0;
    let mut spins = 0u64;
    loop {
        let mut progressed = false;
        while let Some((id, ev)) = router.verif_take_event() {
            events.push(event_kind(&ev));
            let _ = catch(|| router.verif_events(id, ev));
            for _ in 0..50 {
                if !router.verif_consume() {
                    break;
                }
            }
            progressed = true;
        }
        if done.load(Ordering::SeqCst) {
            if !progressed {
                idle_after_done += 1;
                if idle_after_done > 3 {
                    break;
                }
            }
        } else if !progressed {
            idle_passes.fetch_add(1, Ordering::SeqCst);
            std::thread::sleep(Duration::from_micros(50));
        }
        spins += 1;
        if spins > 400_000 {
            crate::vcore::machinery_error("E6 watchdog: the connection task did not finish its script");
        }
    }
    let (written, task_finished, panicked) = net.join().unwrap_or_else(|_| (vec![], true, Some("net thread panicked".into())));
    let mut out = Outcome { written, events, task_finished, panicked, ..Default::default() };
    #[cfg(feature = "snapshot")]
    {
        let snap = router.verif_snapshot();
        out.registered = snap.connection_map.iter().map(|(k, _)| k.clone()).collect();
        out.subscriptions = snap.subscription_map.len() + snap.filters.len() - sc.init_filters.len().min(snap.filters.len());
        out.filter_entries = snap.filters.iter().map(|f| (f.filter.clone(), f.entries)).collect();
        out.retained = snap.retained.iter().map(|(t, p, _)| (t.clone(), p.clone())).collect();
    }
    out
}

// ------------------------------------------------------------------------------------
// C19: admission matrix
// ------------------------------------------------------------------------------------

const P19: &str = "C19";

#[derive(Clone, Debug, Serialize, Deserialize)]
pub struct Case {
    /// 0 CONNECT v4, 1 CONNECT v5, 2 PINGREQ, 3 PUBLISH, 4 SUBSCRIBE, 5 garbage,
    /// 6 truncated CONNECT then silence until the timeout, 7 nothing until the timeout,
    /// 8 CONNECT with an unknown protocol level
    pub first: u8,
    pub keep_alive: u16,
    pub client_id: String,
    pub clean: bool,
    /// 0 absent, 1 wrong user, 2 wrong password, 3 right, 4 unknown user with an empty
    /// password, 5 known user with an empty password, 6 the credentials of the static table
    /// that configuration 3 combines with a callback which refuses them
    pub login: u8,
    pub sc: Scenario,
}

pub fn connect_bytes(v5: bool, keep_alive: u16, id: &str, clean: bool, login: u8) -> Vec<u8> {
    let creds: Option<(&str, &str)> = match login {
        0 => None,
        1 => Some(("nobody", "p")),
        2 => Some(("u", "wrong")),
        3 => Some(("u", "p")),
        // user name present, password empty (on the wire: password flag clear)
        4 => Some(("nobody", "")),
        5 => Some(("u", "")),
        // what the static table of configuration 3 holds (its callback refuses it: with both
        // configured the callback decides)
        _ => Some(("x", "y")),
    };
    let mut b = BytesMut::new();
    if v5 {
        use rumqttc::v5::mqttbytes::v5 as c5;
        let c = c5::Connect { keep_alive, client_id: id.to_string(), clean_start: clean, properties: None };
        let l = creds.map(|(u, p)| c5::Login { username: u.into(), password: p.into() });
        c5::Packet::Connect(c, None, l).write(&mut b, None).unwrap();
    } else {
        use rumqttc::mqttbytes::v4 as c4;
        let mut c = c4::Connect::new(id);
        c.keep_alive = keep_alive;
        c.clean_session = clean;
        c.login = creds.map(|(u, p)| c4::Login::new(u, p));
        c4::Packet::Connect(c).write(&mut b, usize::MAX).unwrap();
    }
    b.to_vec()
}

fn after_traffic(v5: bool) -> Vec<u8> {
    // SUBSCRIBE t/# QoS0 then PUBLISH t/x
    let mut b = BytesMut::new();
    if v5 {
        use rumqttc::v5::mqttbytes::v5 as c5;
        use rumqttc::v5::mqttbytes::QoS;
        let mut s = c5::Subscribe::new(c5::Filter::new("t/#", QoS::AtMostOnce), None);
        s.pkid = 1;
        c5::Packet::Subscribe(s).write(&mut b, None).unwrap();
        c5::Packet::Publish(c5::Publish::new("t/x", QoS::AtMostOnce, vec![1u8], None)).write(&mut b, None).unwrap();
    } else {
        use rumqttc::mqttbytes::v4 as c4;
        use rumqttc::mqttbytes::QoS;
        let mut s = c4::Subscribe::new("t/#", QoS::AtMostOnce);
        s.pkid = 1;
        c4::Packet::Subscribe(s).write(&mut b, usize::MAX).unwrap();
        c4::Packet::Publish(c4::Publish::new("t/x", QoS::AtMostOnce, vec![1u8])).write(&mut b, usize::MAX).unwrap();
    }
    b.to_vec()
}

pub fn cases(thorough: bool) -> Vec<Case> {
    let mut v = vec![];
    let ids: Vec<&str> = if thorough { vec!["", "a", "a/b", "a+", "#", "$x", "é"] } else { vec!["", "a", "a/b", "$x"] };
    for v5_listener in [false, true] {
        for auth in 0..4u8 {
            for first in 0..2u8 {
                for ka in [0u16, 10] {
                    for id in ids.iter() {
                        for clean in [true, false] {
                            for login in 0..7u8 {
                                if !thorough && auth == 0 && login != 0 && login != 3 {
                                    continue;
                                }
                                let bytes = connect_bytes(first == 1, ka, id, clean, login);
                                let ops = vec![Op::Write(bytes), Op::Write(after_traffic(v5_listener)), Op::Advance(10)];
                                v.push(Case {
                                    first,
                                    keep_alive: ka,
                                    client_id: id.to_string(),
                                    clean,
                                    login,
                                    sc: Scenario { v5_listener, auth, timeout_ms: 1000, ops, max_connections: 10, init_filters: vec![] },
                                });
                            }
                        }
                    }
                }
            }
            // other first packets, truncation, silence
            for first in 2..9u8 {
                let first_bytes: Vec<u8> = match first {
                    2 => vec![0xc0, 0x00],
                    3 => vec![0x30, 0x05, 0x00, 0x01, b't', b'x', b'y'],
                    4 => vec![0x82, 0x06, 0x00, 0x01, 0x00, 0x01, b't', 0x00],
                    5 => vec![0xff, 0xff, 0xff, 0xff, 0xff, 0x01],
                    6 => {
                        let b = connect_bytes(v5_listener, 10, "a", true, 3);
                        b[..b.len() - 3].to_vec()
                    }
                    7 => vec![],
                    _ => {
                        // protocol level 3 (MQIsdp-era) with the MQTT name
                        vec![0x10, 0x0d, 0x00, 0x04, b'M', b'Q', b'T', b'T', 0x03, 0x02, 0x00, 0x0a, 0x00, 0x01, b'a']
                    }
                };
                let mut ops = vec![];
                if !first_bytes.is_empty() {
                    ops.push(Op::Write(first_bytes));
                }
                ops.push(Op::Advance(1500));
                ops.push(Op::Write(after_traffic(v5_listener)));
                ops.push(Op::Advance(10));
                v.push(Case {
                    first,
                    keep_alive: 10,
                    client_id: "a".into(),
                    clean: true,
                    login: 3,
                    sc: Scenario { v5_listener, auth, timeout_ms: 1000, ops, max_connections: 10, init_filters: vec![] },
                });
            }
        }
    }
    v
}

/// the statement's conjunction, computed from the configuration alone
pub fn expected_admitted(c: &Case) -> bool {
    let right_version = (c.first == 0 && !c.sc.v5_listener) || (c.first == 1 && c.sc.v5_listener);
    let id_ok = !c.client_id.chars().any(|ch| "+$#/".contains(ch)) && (!c.client_id.is_empty() || c.clean);
    let auth_ok = match c.sc.auth {
        0 => true,
        // static map {u: p}
        1 => c.login == 3,
        // callback decides (accepts exactly u/p); with both configured the callback decides too
        _ => c.login == 3,
    };
    right_version && c.keep_alive != 0 && id_ok && auth_ok
}

fn success_connack(written: &[u8], v5: bool) -> Result<bool, String> {
    if written.is_empty() {
        return Ok(false);
    }
    let mut b = BytesMut::from(written);
    if v5 {
        match rumqttc::v5::mqttbytes::v5::Packet::read(&mut b, None) {
            Ok(rumqttc::v5::mqttbytes::v5::Packet::ConnAck(a)) => Ok(a.code == rumqttc::v5::mqttbytes::v5::ConnectReturnCode::Success),
            Ok(other) => Err(format!("first packet written is {other:?}")),
            Err(e) => Err(format!("undecodable: {e:?}")),
        }
    } else {
        match rumqttc::mqttbytes::v4::Packet::read(&mut b, usize::MAX) {
            Ok(rumqttc::mqttbytes::v4::Packet::ConnAck(a)) => Ok(a.code == rumqttc::mqttbytes::v4::ConnectReturnCode::Success),
            Ok(other) => Err(format!("first packet written is {other:?}")),
            Err(e) => Err(format!("undecodable: {e:?}")),
        }
    }
}

pub fn judge(c: &Case, o: &Outcome) -> Vec<Violation> {
    let mut v = vec![];
    let want = expected_admitted(c);
    let desc = format!(
        "listener v{} auth={} first={} keep_alive={} client_id={:?} clean={} login={}",
        if c.sc.v5_listener { 5 } else { 4 },
        c.sc.auth,
        c.first,
        c.keep_alive,
        c.client_id,
        c.clean,
        c.login
    );
    if let Some(p) = &o.panicked {
        v.push(Violation::new(P19, "connection_task_panic", format!("{desc}: {p}")));
        return v;
    }
    let acked = match success_connack(&o.written, c.sc.v5_listener) {
        Ok(b) => b,
        Err(e) => {
            if want {
                v.push(Violation::new(P19, "no_connack", format!("{desc}: admitted connection got no CONNACK first ({e})")));
            }
            false
        }
    };
    let registered = !o.registered.is_empty();
    if want && !(acked && registered) {
        v.push(Violation::new(
            P19,
            "valid_connect_rejected",
            format!("{desc}: must become a session; successful CONNACK={acked}, registered in the router={registered} (events {:?})", o.events),
        ));
    }
    if !want {
        if acked {
            v.push(Violation::new(P19, "invalid_connect_acked", format!("{desc}: got a successful CONNACK")));
        }
        if registered {
            v.push(Violation::new(P19, "invalid_connect_registered", format!("{desc}: registered in the router as {:?}", o.registered)));
        }
        if o.subscriptions > 0 {
            v.push(Violation::new(P19, "rejected_connection_had_effect", format!("{desc}: packets sent after the rejection created {} subscription entries", o.subscriptions)));
        }
    }
    v
}

// ------------------------------------------------------------------------------------
// link life-cycle conformance (binds E1's model of ending links to the code)
// ------------------------------------------------------------------------------------

#[derive(Clone, Debug)]
pub struct Ending {
    pub name: &'static str,
    pub ops: Vec<Op>,
    /// events E1's life-cycle model says the link emits after the Connect, in order
    pub model_events: Vec<&'static str>,
}

pub fn endings(v5: bool) -> Vec<Ending> {
    let connect = connect_bytes(v5, 10, "lc", true, 0);
    let disconnect: Vec<u8> = if v5 { vec![0xe0, 0x00] } else { vec![0xe0, 0x00] };
    let bad_ack: Vec<u8> = vec![0x40, 0x02, 0x03, 0xe7];
    vec![
        Ending { name: "peer closes the socket", ops: vec![Op::Write(connect.clone()), Op::Close], model_events: vec!["Disconnect", "PublishWill"] },
        Ending { name: "DISCONNECT then close", ops: vec![Op::Write(connect.clone()), Op::Write(disconnect), Op::Close], model_events: vec!["DeviceData", "PublishWill"] },
        Ending { name: "keep-alive expiry", ops: vec![Op::Write(connect.clone()), Op::Advance(16_000)], model_events: vec!["Disconnect", "PublishWill"] },
        Ending { name: "undecodable frame", ops: vec![Op::Write(connect.clone()), Op::Write(vec![0x00, 0x00])], model_events: vec!["Disconnect", "PublishWill"] },
        Ending { name: "router-initiated close (unsolicited PUBACK)", ops: vec![Op::Write(connect.clone()), Op::Write(bad_ack)], model_events: vec!["DeviceData", "PublishWill"] },
    ]
}

/// Returns (conformant, description) for each ending cause.
pub fn conformance() -> Vec<(bool, String)> {
    let mut out = vec![];
    for v5 in [false, true] {
        for e in endings(v5) {
            let mut ops = e.ops.clone();
            // let zero-length timers (the will delay) fire
            ops.push(Op::Advance(10));
            let sc = Scenario { v5_listener: v5, auth: 0, timeout_ms: 1000, ops, max_connections: 10, init_filters: vec![] };
            let o = run_scenario(&sc);
            let got: Vec<&str> = o.events.iter().skip_while(|k| *k != "Connect").skip(1).map(|s| s.as_str()).collect();
            // the model allows the Disconnect event to be absent when the link noticed the
            // router's drop first (DISCONNECT / router-initiated close): compare modulo that
            let ok = got == e.model_events
                || (e.model_events == ["DeviceData", "PublishWill"] && got == ["DeviceData", "Disconnect", "PublishWill"]);
            out.push((ok, format!("v{} {}: link emitted {:?}, model {:?}", if v5 { 5 } else { 4 }, e.name, got, e.model_events)));
        }
    }
    out
}

// ------------------------------------------------------------------------------------
// C16, full stack: the will through the real connection task
// ------------------------------------------------------------------------------------
//
// E1 plays the link itself (it sends `PublishWill` when a link ends), so whether the real
// `remote()` task asks the router for the will after every kind of ending is not seen there.
// Here one client connects through `remote()` with a will on topic `w` (whose log exists
// from the start, so what is published on it can be counted), its connection ends in one
// of the ways below, and the log of `w` must hold exactly one message (the will) — or none,
// if the client sent DISCONNECT first or registered no will.

const P16: &str = "C16";

#[derive(Clone, Debug, Serialize, Deserialize)]
pub struct WillCase {
    pub v5: bool,
    /// 0 no will, 1 QoS 0, 2 QoS 1 retained, 3 (MQTT 5) QoS 1 with a will delay of 5 s
    pub will: u8,
    pub ending: u8,
    pub name: String,
    /// the will has to be published (false: must not be)
    pub expect_will: bool,
    pub sc: Scenario,
}

fn connect_with_will(v5: bool, will: u8) -> Vec<u8> {
    let mut b = BytesMut::new();
    if v5 {
        use rumqttc::v5::mqttbytes::v5 as c5;
        use rumqttc::v5::mqttbytes::QoS;
        let c = c5::Connect { keep_alive: 10, client_id: "owner".to_string(), clean_start: true, properties: None };
        let w = match will {
            0 => None,
            1 => Some(c5::LastWill::new("w", b"gone".to_vec(), QoS::AtMostOnce, false, None)),
            2 => Some(c5::LastWill::new("w", b"gone".to_vec(), QoS::AtLeastOnce, true, None)),
            _ => {
                let p = c5::LastWillProperties {
                    delay_interval: Some(5),
                    payload_format_indicator: None,
                    message_expiry_interval: None,
                    content_type: None,
                    response_topic: None,
                    correlation_data: None,
                    user_properties: vec![],
                };
                Some(c5::LastWill::new("w", b"gone".to_vec(), QoS::AtLeastOnce, false, Some(p)))
            }
        };
        c5::Packet::Connect(c, w, None).write(&mut b, None).unwrap();
    } else {
        use rumqttc::mqttbytes::v4 as c4;
        use rumqttc::mqttbytes::QoS;
        let mut c = c4::Connect::new("owner");
        c.keep_alive = 10;
        c.clean_session = true;
        c.last_will = match will {
            0 => None,
            1 => Some(c4::LastWill::new("w", b"gone".to_vec(), QoS::AtMostOnce, false)),
            _ => Some(c4::LastWill::new("w", b"gone".to_vec(), QoS::AtLeastOnce, true)),
        };
        c4::Packet::Connect(c).write(&mut b, usize::MAX).unwrap();
    }
    b.to_vec()
}

fn sys_subscribe(v5: bool) -> Vec<u8> {
    let mut b = BytesMut::new();
    if v5 {
        use rumqttc::v5::mqttbytes::v5 as c5;
        use rumqttc::v5::mqttbytes::QoS;
        let mut s = c5::Subscribe::new(c5::Filter::new("$SYS/x", QoS::AtMostOnce), None);
        s.pkid = 1;
        c5::Packet::Subscribe(s).write(&mut b, None).unwrap();
    } else {
        use rumqttc::mqttbytes::v4 as c4;
        use rumqttc::mqttbytes::QoS;
        let mut s = c4::Subscribe::new("$SYS/x", QoS::AtMostOnce);
        s.pkid = 1;
        c4::Packet::Subscribe(s).write(&mut b, usize::MAX).unwrap();
    }
    b.to_vec()
}

pub fn will_cases() -> Vec<WillCase> {
    let disconnect: Vec<u8> = vec![0xe0, 0x00];
    let pingreq: Vec<u8> = vec![0xc0, 0x00];
    let bad_ack: Vec<u8> = vec![0x40, 0x02, 0x03, 0xe7];
    let bad_rel: Vec<u8> = vec![0x62, 0x02, 0x03, 0xe7];
    let half_publish: Vec<u8> = vec![0x30, 0x0a, 0x00];
    let mut v = vec![];
    for v5 in [false, true] {
        let wills: &[u8] = if v5 { &[0, 1, 2, 3] } else { &[0, 1, 2] };
        for &will in wills {
            // (name, ops after the CONNECT, did the client send DISCONNECT first)
            let endings: Vec<(&str, Vec<Op>, bool)> = vec![
                ("peer closes the socket", vec![Op::Close], false),
                ("DISCONNECT, then the socket is closed", vec![Op::Write(disconnect.clone()), Op::Close], true),
                ("keep-alive expiry", vec![Op::Advance(16_000)], false),
                ("undecodable frame", vec![Op::Write(vec![0x00, 0x00])], false),
                ("unsolicited PUBACK (the router closes)", vec![Op::Write(bad_ack.clone())], false),
                ("PUBREL for nothing recorded (the router closes)", vec![Op::Write(bad_rel.clone())], false),
                ("PINGREQ and DISCONNECT in one write", vec![Op::Write([pingreq.clone(), disconnect.clone()].concat()), Op::Close], true),
                ("DISCONNECT and an unsolicited PUBACK in one write", vec![Op::Write([disconnect.clone(), bad_ack.clone()].concat()), Op::Close], true),
                ("half a PUBLISH, then the socket is closed", vec![Op::Write(half_publish.clone()), Op::Close], false),
                ("SUBSCRIBE to $SYS/x (the router closes)", vec![Op::Write(sys_subscribe(v5))], false),
                ("PINGREQ answered, then the socket is closed", vec![Op::Write(pingreq.clone()), Op::Close], false),
            ];
            for (k, (name, tail, disconnected)) in endings.into_iter().enumerate() {
                let mut ops = vec![Op::Write(connect_with_will(v5, will))];
                ops.extend(tail);
                // zero-length timers and the will delay
                ops.push(Op::Advance(10));
                ops.push(Op::Advance(6_000));
                v.push(WillCase {
                    v5,
                    will,
                    ending: k as u8,
                    name: name.to_string(),
                    expect_will: will != 0 && !disconnected,
                    sc: Scenario { v5_listener: v5, auth: 0, timeout_ms: 1000, ops, max_connections: 10, init_filters: vec!["w".to_string()] },
                });
            }
        }
    }
    v
}

pub fn judge_will(c: &WillCase, o: &Outcome) -> Vec<Violation> {
    let mut v = vec![];
    let ctx = format!("MQTT {} client, will kind {}, ending: {}", if c.v5 { 5 } else { 4 }, c.will, c.name);
    if let Some(p) = &o.panicked {
        v.push(Violation::new(P16, "connection_task_panic", format!("{ctx}: {p}")));
        return v;
    }
    if !o.events.iter().any(|e| e == "Connect") {
        v.push(Violation::new(P16, "will_owner_not_admitted", format!("{ctx}: the CONNECT never reached the router (events {:?})", o.events)));
        return v;
    }
    let published = o.filter_entries.iter().find(|(f, _)| f == "w").map(|(_, n)| *n).unwrap_or(0);
    // (a broker that does not close the connection for the offending packet owes no will:
    // the claim is about connections that have ended)
    let ended = !o.registered.iter().any(|r| r == "owner");
    let expect_will = c.expect_will && ended;
    let c = &WillCase { expect_will, ..c.clone() };
    let want = if c.expect_will { 1 } else { 0 };
    if published != want {
        let code = if published < want { "will_not_published" } else if want == 0 { "will_published_unexpectedly" } else { "will_published_twice" };
        v.push(Violation::new(P16, code, format!("{ctx}: {published} message(s) on the will topic, expected {want} (events on the router channel: {:?})", o.events)));
    }
    if c.expect_will && c.will == 2 && !o.retained.iter().any(|(t, p)| t == "w" && p == b"gone") {
        v.push(Violation::new(P16, "will_retain_lost", format!("{ctx}: the will was registered with retain, nothing is retained on its topic")));
    }
    if (!c.expect_will || c.will != 2) && o.retained.iter().any(|(t, _)| t == "w") {
        v.push(Violation::new(P16, "will_retained_unexpectedly", format!("{ctx}: a message is retained on the will topic")));
    }
    v
}
