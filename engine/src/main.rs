//! vcheck — model-checking harness for bytebeamio/rumqtt (see /verif/DESIGN.md).
mod c19;
mod e1;
mod e2;
mod e3_codec;
mod e4_topicgrid;
mod e5_commitlog;
mod e6_fullstack;
mod e7_flow;
mod vcore;
mod wire;

use vcore::Tier;

fn usage() -> ! {
    eprintln!("usage: vcheck <C01..C20> <quick|thorough> | vcheck replay <file>");
    std::process::exit(vcore::EXIT_MACHINERY)
}

fn main() {
    vcore::install_panic_hook();
    let args: Vec<String> = std::env::args().collect();
    if args.len() < 3 {
        usage();
    }
    if let Ok(n) = std::env::var("VERIF_THREADS") {
        if let Ok(n) = n.parse::<usize>() {
            rayon::ThreadPoolBuilder::new().num_threads(n).build_global().ok();
        }
    }
    let code = if args[1] == "replay" {
        replay(&args[2])
    } else {
        let tier = match args[2].as_str() {
            "quick" => Tier::Quick,
            "thorough" => Tier::Thorough,
            _ => usage(),
        };
        match args[1].as_str() {
            "C01" => e1::run::run("C01", tier),
            "C02" => e2::run::run("C02", tier),
            "C07" => e2::run::run("C07", tier),
            "C10" => e2::run::run("C10", tier),
            "C11" => e2::run::run("C11", tier),
            "C18" => e2::run::run("C18", tier),
            "C03" => e1::run::run("C03", tier),
            "C06" => e1::run::run("C06", tier),
            "C08" => e1::run::run("C08", tier),
            "C09" => e1::run::run("C09", tier),
            "C14" => e1::run::run("C14", tier),
            "C15" => e1::run::run("C15", tier),
            "C16" => c19::run_c16(tier),
            "C17" => e1::run::run("C17", tier),
            "C19" => c19::run(tier),
            "C20" => e1::run::run("C20", tier),
            "C04" => e3_codec::run_c04(tier),
            "C05" => e3_codec::run_c05(tier),
            "C12" => e4_topicgrid::run(tier),
            "C13" => e5_commitlog::run(tier),
            _ => usage(),
        }
    };
    std::process::exit(code)
}

fn replay(path: &str) -> i32 {
    let text = match std::fs::read_to_string(path) {
        Ok(t) => t,
        Err(e) => vcore::machinery_error(&format!("cannot read {path}: {e}")),
    };
    let doc: serde_json::Value = match serde_json::from_str(&text) {
        Ok(v) => v,
        Err(e) => vcore::machinery_error(&format!("cannot parse {path}: {e}")),
    };
    println!(
        "replaying {} (property {}, oracle {})",
        path, doc["property"], doc["code"]
    );
    println!("recorded detail: {}", doc["detail"]);
    let r = &doc["replay"];
    match r["engine"].as_str().unwrap_or("") {
        "e1_router" => e1::run::replay(r),
        "e6_fullstack" => c19::replay(r),
        "e6_will" => c19::replay_will(r),
        "e7_flow" => e7_flow::replay(r),
        "e7_embedded" => e7_flow::replay_embedded(r),
        "e2_client" => e2::run::replay(r),
        "e3_codec" => e3_codec::replay(r),
        "e4_topicgrid" => e4_topicgrid::replay(r),
        "e5_commitlog" => e5_commitlog::replay(r),
        other => vcore::machinery_error(&format!("unknown engine {other}")),
    }
}
