//! The reference model with its open alternatives.
//!
//! For a client that misbehaves, the statements say what must *not* happen to the others and
//! to the broker; they rarely say what the broker does with the offending packet (ignore it,
//! answer it, close the connection). `Model::consumed` follows what this broker is known to
//! do and hands back the other permitted outcomes as further models. All of them are fed the
//! same observations; a model that cannot explain an observation (it raises a violation, or
//! its set of connected clients differs from the router's) is dropped as long as another one
//! still can. A violation is reported only when no alternative explains the history.
use super::model::Model;
use super::Cfg;
use crate::vcore::Violation;
use crate::wire::{Rx, Tx};
use std::hash::Hasher;
use std::ops::Deref;

/// alternatives kept at most (hostile packets in one unsettled stretch)
const MAX_ALTS: usize = 32;

pub struct Models {
    /// `all[0]` is the model the harness reads; never empty
    all: Vec<Model>,
}

impl Deref for Models {
    type Target = Model;
    fn deref(&self) -> &Model {
        &self.all[0]
    }
}

impl Models {
    pub fn new(cfg: &Cfg) -> Models {
        Models { all: vec![Model::new(cfg)] }
    }

    pub fn alternatives(&self) -> usize {
        self.all.len()
    }

    fn each(&mut self, f: impl Fn(&mut Model)) {
        for m in self.all.iter_mut() {
            f(m);
        }
    }

    pub fn note(&mut self, s: String) {
        self.each(|m| m.note(s.clone()));
    }
    pub fn connect_sent(&mut self, ci: usize, clean: bool, will: bool, takeover: bool) {
        self.each(|m| m.connect_sent(ci, clean, will, takeover));
    }
    pub fn connected(&mut self, ci: usize, conn_id: usize, uid: u32) {
        self.each(|m| m.connected(ci, conn_id, uid));
    }
    pub fn mark_lagged(&mut self, filter: &str, conn_ids: &[usize], names: &[String]) {
        self.each(|m| m.mark_lagged(filter, conn_ids, names));
    }
    pub fn register_will(&mut self, ci_name: &str, topic: String, payload: Vec<u8>, qos: u8, retain: bool) {
        self.each(|m| m.register_will(ci_name, topic.clone(), payload.clone(), qos, retain));
    }
    pub fn forget_will(&mut self, name: &str) {
        self.each(|m| {
            m.wills.remove(name);
        });
    }
    pub fn connect_refused(&mut self, ci: usize) {
        self.each(|m| m.connect_refused(ci));
    }
    pub fn link_lost(&mut self, ci: usize) {
        self.each(|m| m.link_lost(ci));
    }
    pub fn link_ended_by_router(&mut self, ci: usize) {
        self.each(|m| m.link_ended_by_router(ci));
    }
    pub fn will_event(&mut self, name: &str) {
        self.each(|m| m.will_event(name));
    }
    pub fn received(&mut self, ci: usize, rx: &Rx) {
        self.each(|m| m.received(ci, rx));
    }

    /// the router consumed `tx` of client `ci` (a model in which `ci` is no longer connected
    /// ignores it: whatever follows the packet that closed the connection is dropped)
    pub fn consumed(&mut self, ci: usize, tx: &Tx) {
        let mut extra: Vec<Model> = vec![];
        for m in self.all.iter_mut() {
            if m.registered(ci) {
                extra.extend(m.consumed(ci, tx));
            }
        }
        for e in extra {
            if self.all.len() >= MAX_ALTS {
                break;
            }
            let h = Self::fp(&e);
            if !self.all.iter().any(|m| Self::fp(m) == h) {
                self.all.push(e);
            }
        }
    }

    fn fp(m: &Model) -> u64 {
        let mut h = std::collections::hash_map::DefaultHasher::new();
        m.hash_state(&mut h);
        h.finish()
    }

    /// Keep the alternatives that explain everything seen so far. `connected`, when given,
    /// is the sorted list of client names the router holds connections for.
    pub fn resolve(&mut self, connected: Option<&[&str]>) {
        if self.all.len() == 1 {
            return;
        }
        let ok: Vec<bool> = self
            .all
            .iter()
            .map(|m| {
                m.viols.is_empty()
                    && connected.is_none_or(|have| {
                        let mut want: Vec<&str> = m.clients.iter().enumerate().filter(|(_, c)| c.registered).map(|(i, _)| super::NAMES[i]).collect();
                        want.sort();
                        want == have
                    })
            })
            .collect();
        if ok.iter().any(|b| *b) {
            let mut k = 0;
            self.all.retain(|_| {
                k += 1;
                ok[k - 1]
            });
        } else {
            // nothing explains the history: the model of this broker's known behaviour
            // speaks (violations first, the connection set is compared by the caller)
            let keep = self.all.iter().position(|m| m.viols.is_empty()).unwrap_or(0);
            let m = self.all.swap_remove(keep);
            self.all = vec![m];
        }
    }

    /// The broker is idle, every link has been drained and every client has acknowledged
    /// everything it received: an alternative that still waits for a reply or a forward does
    /// not describe this broker (dropped if another one waits for nothing).
    pub fn resolve_quiet(&mut self) {
        if self.all.len() == 1 {
            return;
        }
        let ok: Vec<bool> = self
            .all
            .iter()
            .map(|m| {
                let mut v = vec![];
                m.check_complete(&mut v);
                v.is_empty() && m.viols.is_empty()
            })
            .collect();
        if ok.iter().any(|b| *b) {
            let mut k = 0;
            self.all.retain(|_| {
                k += 1;
                ok[k - 1]
            });
        }
    }

    pub fn take_violations(&mut self, prop: &'static str, out: &mut Vec<Violation>) {
        self.resolve(None);
        self.all[0].take_violations(prop, out);
    }

    /// closure-time oracles: satisfied if one alternative is
    pub fn check_complete(&self, out: &mut Vec<(String, String)>) {
        let mut first: Option<Vec<(String, String)>> = None;
        for m in self.all.iter() {
            let mut v = vec![];
            m.check_complete(&mut v);
            if v.is_empty() {
                return;
            }
            first.get_or_insert(v);
        }
        out.extend(first.unwrap_or_default());
    }

    pub fn hash_state<H: Hasher>(&self, h: &mut H) {
        for m in self.all.iter() {
            m.hash_state(h);
        }
        h.write_usize(self.all.len());
    }

    pub fn describe(&self) -> String {
        let mut s = self.all[0].describe();
        if self.all.len() > 1 {
            s += &format!(" (+{} alternative models)", self.all.len() - 1);
        }
        s
    }
}
