//! Entry points: configurations, bounds and evidence per property served by E1.
use super::{Act, Cfg, RouterWorld};
use crate::vcore::evidence::Evidence;
use crate::vcore::explore::{explore, replay_print, Params};
use crate::vcore::findings::Reporter;
use crate::vcore::Tier;
use serde_json::json;
use std::time::Duration;

fn connect_all(n: u8) -> Vec<Act> {
    (0..n).map(|c| Act::Connect { c, clean: true, will: 0 }).collect()
}

fn s(v: &[&str]) -> Vec<String> {
    v.iter().map(|x| x.to_string()).collect()
}

pub struct Plan {
    pub cfg: Cfg,
    pub depth_by_devs: Vec<usize>,
}

fn plans_c01(tier: Tier) -> Vec<Plan> {
    let mut v = vec![];
    let quick = tier == Tier::Quick;
    // variant 0: QoS0/1, overlapping literal/+/# filters
    let mut c = Cfg::base("C01");
    c.prelude = connect_all(4);
    c.topics = s(&["a/b", "a/c"]);
    c.filters = s(&["a/b", "a/+", "#"]);
    v.push(Plan { cfg: c.clone(), depth_by_devs: if quick { vec![4, 3] } else { vec![5, 5, 4] } });
    // a filter `T/#` next to the topic `T` itself (parent level), created before or after
    // `T` was first published (seed C01-e)
    let mut cp = c.clone();
    cp.topics = s(&["a/b", "a/b/c"]);
    cp.filters = s(&["a/b", "a/b/#"]);
    v.push(Plan { cfg: cp, depth_by_devs: if quick { vec![4, 3] } else { vec![5, 5, 4] } });
    // variant 1: QoS1/2
    let mut c1 = c.clone();
    c1.variant = 1;
    c1.topics = s(&["a/b", "x"]);
    c1.filters = s(&["a/#", "+/b"]);
    v.push(Plan { cfg: c1.clone(), depth_by_devs: if quick { vec![4, 4] } else { vec![6, 5, 5] } });
    // variant 2: $-prefixed and multi-byte topics, disconnect/reconnect of subscribers
    let mut c2 = c.clone();
    c2.variant = 2;
    c2.topics = s(&["$x/y", "é/b", "a"]);
    c2.filters = s(&["#", "é/+", "+"]);
    v.push(Plan { cfg: c2.clone(), depth_by_devs: if quick { vec![3, 3] } else { vec![5, 4] } });
    // variant 3: 1 KB segments, 600-byte payloads, 1-2 segments retained, stalling subscribers
    for segs in [1usize, 2] {
        if quick && segs == 2 {
            continue;
        }
        let mut c3 = c.clone();
        c3.variant = 3;
        c3.seg_size = 1024;
        c3.seg_count = segs;
        c3.pad = 600;
        c3.topics = s(&["a/b"]);
        c3.filters = s(&["a/b", "a/+"]);
        v.push(Plan { cfg: c3, depth_by_devs: if quick { vec![5] } else { vec![7, 5] } });
    }
    // variant 4: bursts of 12 and 130 against an outgoing batch of 4 and the window of 100,
    // up to three overlapping subscriptions per subscriber
    let mut c4 = c.clone();
    c4.variant = 4;
    c4.max_out = 4;
    c4.topics = s(&["a/b"]);
    v.push(Plan { cfg: c4, depth_by_devs: if quick { vec![4] } else { vec![5, 4] } });
    if !quick {
        // configurations: hash order, tiny outgoing batch, v5 subscribers
        let mut d = c.clone();
        d.order_desc = true;
        v.push(Plan { cfg: d, depth_by_devs: vec![5, 5] });
        let mut e = c1.clone();
        e.max_out = 1;
        v.push(Plan { cfg: e, depth_by_devs: vec![6, 5] });
        let mut f = c.clone();
        f.v5 = vec![false, true, true, false, false];
        v.push(Plan { cfg: f, depth_by_devs: vec![5, 5] });
    }
    v
}

fn mk(prop: &str, variant: u8, n_clients: u8, topics: &[&str], filters: &[&str]) -> Cfg {
    let mut c = Cfg::base(prop);
    c.variant = variant;
    c.prelude = connect_all(n_clients);
    c.topics = s(topics);
    c.filters = s(filters);
    c
}

fn plans_c06(tier: Tier) -> Vec<Plan> {
    let q = tier == Tier::Quick;
    let mut v = vec![];
    let mut c = mk("C06", 0, 3, &["a/b"], &["a/b", "a/+"]);
    c.prelude.push(Act::Sub { c: 2, f: 1, qos: 1 });
    v.push(Plan { cfg: c.clone(), depth_by_devs: if q { vec![3, 2] } else { vec![5, 4, 4] } });
    // requests arriving while the connection is inflight-full (c0 subscribed, 101 unacked)
    let mut c1 = c.clone();
    c1.variant = 1;
    c1.prelude.push(Act::Sub { c: 0, f: 0, qos: 1 });
    c1.prelude.push(Act::Burst { c: 1, t: 0, qos: 0, n: 101 });
    v.push(Plan { cfg: c1, depth_by_devs: if q { vec![3] } else { vec![3, 3] } });
    // requests arriving while the connection is paused as busy (stalled link, 250 buffered)
    let mut c2 = c.clone();
    c2.variant = 2;
    c2.prelude.push(Act::Sub { c: 0, f: 0, qos: 0 });
    c2.prelude.push(Act::Stall { c: 0 });
    c2.prelude.push(Act::Burst { c: 1, t: 0, qos: 0, n: 250 });
    v.push(Plan { cfg: c2, depth_by_devs: if q { vec![2] } else { vec![3, 3] } });
    // requests of a subscriber whose link holds 150 uncollected forwards (not yet busy)
    let mut c4 = c.clone();
    c4.variant = 4;
    c4.prelude.push(Act::Sub { c: 0, f: 0, qos: 0 });
    c4.prelude.push(Act::Stall { c: 0 });
    c4.prelude.push(Act::Burst { c: 1, t: 0, qos: 0, n: 150 });
    v.push(Plan { cfg: c4, depth_by_devs: if q { vec![2] } else { vec![3, 3] } });
    // MQTT 5 requesters (acks and releases may carry properties)
    let mut c3 = c.clone();
    c3.v5 = vec![true, false, true, false, false];
    v.push(Plan { cfg: c3, depth_by_devs: if q { vec![3, 2] } else { vec![4, 4] } });
    v
}

fn plans_c08(tier: Tier) -> Vec<Plan> {
    let q = tier == Tier::Quick;
    let mut v = vec![];
    let mut c = mk("C08", 0, 1, &["a/b", "x/y"], &["a/b", "x/+"]);
    c.prelude.push(Act::Connect { c: 2, clean: false, will: 0 });
    v.push(Plan { cfg: c.clone(), depth_by_devs: if q { vec![6, 4] } else { vec![9, 7, 6] } });
    let mut c1 = c.clone();
    c1.variant = 1;
    c1.topics = s(&["a/b"]);
    c1.filters = s(&["a/b"]);
    c1.manual = false;
    v.push(Plan { cfg: c1, depth_by_devs: if q { vec![7] } else { vec![10] } });
    let mut c2 = c.clone();
    c2.variant = 2;
    v.push(Plan { cfg: c2, depth_by_devs: if q { vec![5] } else { vec![8, 6] } });
    // overlapping filters (one message in flight through two subscriptions), more than a
    // window full of backlog, QoS 0/2 publishers, takeover by a clean-session connect
    let mut c5 = c.clone();
    c5.variant = 3;
    c5.topics = s(&["a/b"]);
    c5.filters = s(&["a/b", "a/+"]);
    v.push(Plan { cfg: c5, depth_by_devs: if q { vec![4] } else { vec![6, 5] } });
    if !q {
        let mut c3 = c.clone();
        c3.seg_size = 1024;
        c3.seg_count = 2;
        c3.pad = 600;
        v.push(Plan { cfg: c3, depth_by_devs: vec![7, 5] });
    }
    // MQTT 5 subscriber: its subscription identifiers belong to the session as well
    let mut c4 = c.clone();
    c4.v5 = vec![true, false, true, false, false];
    v.push(Plan { cfg: c4, depth_by_devs: if q { vec![5] } else { vec![7, 5] } });
    v
}

fn plans_c09(tier: Tier) -> Vec<Plan> {
    let q = tier == Tier::Quick;
    let mut v = vec![];
    let c = mk("C09", 0, 3, &["a/b", "a/c"], &["a/b", "a/+"]);
    v.push(Plan { cfg: c.clone(), depth_by_devs: if q { vec![4] } else { vec![6, 5] } });
    let mut c1 = c.clone();
    c1.variant = 1;
    c1.topics = s(&["a/b"]);
    c1.filters = s(&["a/b"]);
    v.push(Plan { cfg: c1.clone(), depth_by_devs: if q { vec![5] } else { vec![8, 6] } });
    // the window of a member of a shared subscription (seed C09-f)
    let mut cs = c1;
    cs.filters = s(&["$share/g/a/b"]);
    v.push(Plan { cfg: cs, depth_by_devs: if q { vec![5] } else { vec![7, 6] } });
    let mut c2 = c.clone();
    c2.variant = 2;
    c2.topics = s(&["a/b"]);
    c2.filters = s(&["a/b", "a/+"]);
    v.push(Plan { cfg: c2, depth_by_devs: if q { vec![4, 4] } else { vec![6, 6, 6] } });
    // small outgoing batches (10 per sweep) against the window of 100
    let mut c3 = c.clone();
    c3.max_out = 10;
    v.push(Plan { cfg: c3, depth_by_devs: if q { vec![3] } else { vec![5, 4] } });
    v
}

fn plans_c14(tier: Tier) -> Vec<Plan> {
    let q = tier == Tier::Quick;
    let mut v = vec![];
    let mut c = mk("C14", 0, 3, &["w", "z"], &["w", "$share/g/z"]);
    c.prelude.push(Act::Sub { c: 1, f: 0, qos: 1 });
    v.push(Plan { cfg: c.clone(), depth_by_devs: if q { vec![5, 4] } else { vec![8, 6, 5] } });
    let mut c1 = c.clone();
    c1.variant = 1;
    c1.prelude[2] = Act::Connect { c: 2, clean: false, will: 0 };
    v.push(Plan { cfg: c1, depth_by_devs: if q { vec![5] } else { vec![8, 6] } });
    let mut c2 = c.clone();
    c2.variant = 2;
    v.push(Plan { cfg: c2, depth_by_devs: if q { vec![4] } else { vec![6, 5] } });
    // two offenders ahead of the victim on the same filter (waiters list and ready queue
    // in the order m, n, s): both may end in the turn in which all three were woken
    let mut c3 = mk("C14", 3, 4, &["w"], &["w"]);
    c3.prelude.push(Act::Sub { c: 2, f: 0, qos: 0 });
    c3.prelude.push(Act::Sub { c: 3, f: 0, qos: 0 });
    c3.prelude.push(Act::Sub { c: 1, f: 0, qos: 1 });
    v.push(Plan { cfg: c3, depth_by_devs: if q { vec![1, 3] } else { vec![3, 5] } });
    v
}

fn plans_c15(tier: Tier) -> Vec<Plan> {
    let q = tier == Tier::Quick;
    let mut v = vec![];
    let mut c = mk("C15", 0, 4, &["r/a", "r/b", "x"], &["r/a", "r/+", "#", "$share/g/r/a"]);
    // the statement quantifies over histories and inputs; which retained value a
    // subscription racing with a retained publish sees is not specified
    c.manual = false;
    for desc in [false, true] {
        let mut d = c.clone();
        d.order_desc = desc;
        v.push(Plan { cfg: d, depth_by_devs: if q { vec![3] } else { vec![5, 4] } });
    }
    // small delivery window: 3 retained topics must still fit into a window of 4
    let mut cw = c.clone();
    cw.max_out = 4;
    v.push(Plan { cfg: cw, depth_by_devs: if q { vec![4] } else { vec![5] } });
    let mut c1 = c.clone();
    c1.variant = 1;
    c1.topics = s(&["r/a", "r/b"]);
    // (`r/a/#` also matches its parent level `r/a`)
    c1.filters = s(&["r/+", "r/a", "r/a/#"]);
    v.push(Plan { cfg: c1.clone(), depth_by_devs: if q { vec![4] } else { vec![6, 5] } });
    // retained QoS 2 publishes of an MQTT 5 publisher (properties), window of 2
    let mut c2 = c1.clone();
    c2.variant = 2;
    c2.v5 = vec![true, false, true, false, false];
    v.push(Plan { cfg: c2.clone(), depth_by_devs: if q { vec![3] } else { vec![5, 4] } });
    c2.max_out = 2;
    v.push(Plan { cfg: c2, depth_by_devs: if q { vec![3] } else { vec![5] } });
    // a will with the retain flag (c1) while c2 holds a matching subscription: the will is
    // stored as the retained message of its topic, the live copy is not flagged
    let mut c3 = c1.clone();
    c3.variant = 3;
    c3.prelude[1] = Act::Connect { c: 1, clean: true, will: 2 };
    c3.prelude.push(Act::Sub { c: 2, f: 0, qos: 1 });
    v.push(Plan { cfg: c3, depth_by_devs: if q { vec![3] } else { vec![5, 4] } });
    v
}

fn plans_c16(tier: Tier) -> Vec<Plan> {
    let q = tier == Tier::Quick;
    let mut v = vec![];
    for variant in 0..3u8 {
        let mut c = mk("C16", variant, 0, &["w", "t"], &["w", "#"]);
        c.prelude = vec![
            Act::Connect { c: 2, clean: true, will: 0 },
            Act::Connect { c: 3, clean: true, will: 0 },
            Act::Sub { c: 2, f: 0, qos: 1 },
        ];
        let d = match (q, variant) {
            (true, 2) => vec![3, 3],
            (true, _) => vec![4, 4],
            _ => vec![6, 5],
        };
        v.push(Plan { cfg: c.clone(), depth_by_devs: d });
        if variant == 0 {
            // MQTT 5 will owner (will properties) towards an MQTT 5 and a 3.1.1 subscriber
            let mut c5 = c.clone();
            c5.v5 = vec![true, false, true, false, false];
            v.push(Plan { cfg: c5, depth_by_devs: if q { vec![3] } else { vec![5, 4] } });
        }
    }
    v
}

fn plans_c17(tier: Tier) -> Vec<Plan> {
    let q = tier == Tier::Quick;
    let mut v = vec![];
    for strategy in 0..3u8 {
        let mut c = mk("C17", 0, 4, &["t"], &["$share/g/t", "u/+"]);
        c.strategy = strategy;
        v.push(Plan { cfg: c, depth_by_devs: if q { vec![4] } else { vec![6, 5] } });
    }
    let mut c1 = mk("C17", 1, 4, &["t"], &["$share/g/t"]);
    c1.strategy = 0;
    v.push(Plan { cfg: c1.clone(), depth_by_devs: if q { vec![5] } else { vec![7, 6] } });
    let mut c2 = mk("C17", 2, 3, &["t"], &["$share/g/t"]);
    c2.strategy = 0;
    v.push(Plan { cfg: c2, depth_by_devs: if q { vec![4] } else { vec![6] } });
    // two filters under one share name: `$share/g/t` and `$share/g/u` are independent groups
    let c3 = mk("C17", 3, 3, &["t", "u"], &["$share/g/t", "x/+", "$share/g/u"]);
    v.push(Plan { cfg: c3, depth_by_devs: if q { vec![3] } else { vec![5, 4] } });
    // QoS 2 members (one of them MQTT 5) on a wildcard shared filter; members may also drop
    let mut c5 = mk("C17", 5, 4, &["t/a"], &["$share/g/t/+"]);
    c5.v5 = vec![false, false, true, false, false];
    v.push(Plan { cfg: c5, depth_by_devs: if q { vec![3] } else { vec![5, 4] } });
    // a member with a persistent session (c1) next to a clean one (c2), QoS 1
    let mut c4 = mk("C17", 4, 1, &["t"], &["$share/g/t"]);
    c4.prelude.push(Act::Connect { c: 1, clean: false, will: 0 });
    c4.prelude.push(Act::Connect { c: 2, clean: true, will: 0 });
    c4.prelude.push(Act::Sub { c: 1, f: 0, qos: 1 });
    v.push(Plan { cfg: c4, depth_by_devs: if q { vec![4] } else { vec![6, 5] } });
    // two groups on one topic filter (each gets every message once) and a plain
    // subscription of a member to the same topic (that client gets the message once more)
    let c7 = mk("C17", 7, 3, &["t"], &["$share/g/t", "t", "$share/h/t"]);
    v.push(Plan { cfg: c7, depth_by_devs: if q { vec![4] } else { vec![6, 5] } });
    // a member that joined twice (two entries in the group's list) before or behind a
    // member that joined once: where the turn stands when the double member leaves
    for (order, strategy) in [(0u8, 0u8), (1, 0), (0, 1)] {
        let mut c6 = mk("C17", 6, 3, &["t"], &["$share/g/t"]);
        c6.strategy = strategy;
        let twice = [Act::Sub { c: 1, f: 0, qos: 1 }, Act::Sub { c: 1, f: 0, qos: 1 }];
        let once = [Act::Sub { c: 2, f: 0, qos: 0 }];
        if order == 0 {
            c6.prelude.extend(twice.iter().cloned().chain(once.iter().cloned()));
        } else {
            c6.prelude.extend(once.iter().cloned().chain(twice.iter().cloned()));
        }
        v.push(Plan { cfg: c6, depth_by_devs: if q { vec![4] } else { vec![6, 5] } });
    }
    if !q {
        c1.strategy = 2;
        v.push(Plan { cfg: c1, depth_by_devs: vec![6, 5] });
    }
    v
}

fn plans_c03(tier: Tier) -> Vec<Plan> {
    let q = tier == Tier::Quick;
    let mut v = vec![];
    for variant in 0..3u8 {
        let mut c = mk("C03", variant, 0, &["a/b", "é/b"], &["a/+", "$share/g/a/b", "#"]);
        c.v5 = vec![false, true, false, false, false];
        c.prelude = vec![];
        v.push(Plan { cfg: c, depth_by_devs: if q { vec![3] } else { vec![5, 4] } });
    }
    v
}

fn plans_c20(tier: Tier) -> Vec<Plan> {
    let q = tier == Tier::Quick;
    let mut v = vec![];
    for pub_v5 in [true, false] {
        let mut c = mk("C20", 0, 4, &["t"], &["t"]);
        c.v5 = vec![pub_v5, false, false, true, false];
        c.prelude.push(Act::Sub { c: 2, f: 0, qos: 1 });
        c.prelude.push(Act::Sub { c: 3, f: 0, qos: 2 });
        v.push(Plan { cfg: c.clone(), depth_by_devs: if q { vec![3, 2] } else { vec![5, 3] } });
        // the MQTT 5 subscriber subscribed with a subscription identifier
        let mut si = c.clone();
        si.variant = 1;
        v.push(Plan { cfg: si, depth_by_devs: vec![if q { 2 } else { 4 }] });
        if !q {
            // broker-side topic aliases towards the v5 subscriber, retained replays
            let mut d = c.clone();
            d.variant = 100;
            v.push(Plan { cfg: d, depth_by_devs: vec![5, 4] });
        }
        if pub_v5 {
            // one topic, two overlapping filters (two logs): the MQTT 5 subscriber holds
            // both, a 3.1.1 subscriber one of them; both orders of the filter table
            for desc in [false, true] {
                let mut o = mk("C20", 2, 4, &["a/b"], &["a/b", "a/+"]);
                o.v5 = vec![true, false, false, true, false];
                o.order_desc = desc;
                o.prelude.push(Act::Sub { c: 3, f: 0, qos: 1 });
                o.prelude.push(Act::Sub { c: 3, f: 1, qos: 2 });
                o.prelude.push(Act::Sub { c: 2, f: 1, qos: 1 });
                v.push(Plan { cfg: o, depth_by_devs: if q { vec![2] } else { vec![4, 3] } });
            }
        }
        // broker-side topic aliases, one wildcard subscription matching two topics
        let mut w = mk("C20", 100, 4, &["a/b", "a/c"], &["a/+"]);
        w.v5 = vec![pub_v5, false, false, true, false];
        w.prelude.push(Act::Sub { c: 2, f: 0, qos: 1 });
        let mut late = w.clone();
        w.prelude.push(Act::Sub { c: 3, f: 0, qos: 1 });
        if pub_v5 {
            // subscription identifier and broker alias on the same forward; one alias only
            for variant in [101u8, 102] {
                let mut x = w.clone();
                x.variant = variant;
                v.push(Plan { cfg: x, depth_by_devs: if q { vec![3] } else { vec![4] } });
            }
        }
        v.push(Plan { cfg: w, depth_by_devs: if q { vec![3] } else { vec![5, 4] } });
        if pub_v5 {
            // the MQTT 5 subscriber subscribes late: retained messages (with properties) are
            // replayed to it
            v.push(Plan { cfg: late.clone(), depth_by_devs: if q { vec![3] } else { vec![5] } });
            late.v5 = vec![true, false, true, false, false];
            v.push(Plan { cfg: late, depth_by_devs: if q { vec![3] } else { vec![5] } });
        }
    }
    v
}

/// C12, the broker's effective routing: one plan per filter shape, four topics, every order
/// of subscribing and publishing (the per-topic filter cache is filled by the first publish
/// and patched by later subscriptions)
fn plans_c12(tier: Tier) -> Vec<Plan> {
    let q = tier == Tier::Quick;
    let filters: &[&str] = &[
        "a/b/#", "+/#", "a/+/#", "a/#", "+/b/#", "a//#", "+/+/#", "a/+", "+", "+/+", "a/b", "+/", "/#", "é/#", "a/é/+",
    ];
    let seconds: &[&str] = if q { &["#"] } else { &["#", "a/+", "+/b"] };
    let mut v = vec![];
    for f in filters {
        for s2 in seconds {
            let mut c = mk("C12", 0, 4, &["a/b", "a", "a/", "/", "a/é/b"], &[f, s2]);
            c.manual = false;
            v.push(Plan { cfg: c, depth_by_devs: vec![if q { 4 } else { 5 }] });
        }
    }
    // topics that start with '$': no filter matches them, whatever was published or
    // subscribed first (a shared subscription is the only way to create a filter whose
    // text starts with '$' in this broker: the group prefix is stripped)
    for (f, s2) in [("$share/g/$x", "#"), ("$share/g/$x/+", "+/y"), ("$share/g/$x/#", "$share/h/+/y")] {
        let mut c = mk("C12", 1, 4, &["$x", "$x/y", "a/y"], &[f, s2]);
        c.manual = false;
        v.push(Plan { cfg: c, depth_by_devs: vec![if q { 4 } else { 5 }] });
    }
    v
}

fn plans_c19(tier: Tier) -> Vec<Plan> {
    let q = tier == Tier::Quick;
    let mut v = vec![];
    for max in 1..=3usize {
        let mut c = mk("C19", 0, 0, &[], &[]);
        c.max_conn = max;
        c.prelude = vec![];
        v.push(Plan { cfg: c, depth_by_devs: if q { vec![5] } else { vec![7, 6] } });
    }
    v
}

fn plans(prop: &str, tier: Tier) -> Vec<Plan> {
    match prop {
        "C01" => plans_c01(tier),
        "C03" => plans_c03(tier),
        "C06" => plans_c06(tier),
        "C08" => plans_c08(tier),
        "C09" => plans_c09(tier),
        "C14" => plans_c14(tier),
        "C15" => plans_c15(tier),
        "C16" => plans_c16(tier),
        "C17" => plans_c17(tier),
        "C19" => plans_c19(tier),
        "C20" => plans_c20(tier),
        "C12" => plans_c12(tier),
        _ => vec![],
    }
}

pub fn run(prop: &'static str, tier: Tier) -> i32 {
    let reporter = Reporter::new(prop);
    let mut ev = Evidence::new(prop, tier);
    // the same statements through the real link layer (connection tasks over in-memory streams)
    crate::e7_flow::run_part(prop, tier, &reporter, &mut ev);
    if matches!(prop, "C01" | "C03" | "C14") {
        // and through the embedding API of link/local.rs
        crate::e7_flow::run_embedded_part(prop, tier, &reporter, &mut ev);
    }
    explore_plans(prop, tier, &reporter, &mut ev, 1.0);
    ev.violations = reporter.new_violations();
    let notes: Vec<String> = reporter.notes().iter().map(|(c, n)| format!("{c}: {n}")).collect();
    ev.set("branches_ended_by_oracles_of_other_statements", serde_json::json!(notes));
    let code = reporter.finish();
    ev.write();
    code
}

/// Explore every plan of the property; counts go into `ev`, violations to `reporter`.
pub fn explore_plans(prop: &'static str, tier: Tier, reporter: &Reporter, ev: &mut Evidence, budget_share: f64) {
    let plans = plans(prop, tier);
    if plans.is_empty() {
        crate::vcore::machinery_error(&format!("no plan for {prop}"));
    }
    let budget = match tier {
        Tier::Quick => Duration::from_secs(40),
        Tier::Thorough => Duration::from_secs(900),
    };
    let per_plan = budget.mul_f64(budget_share) / plans.len() as u32;
    let mut per_cfg = vec![];
    let mut outcomes_total = 0;
    // depth bonus per property (tuned so that the quick tier stays well under a minute and the
    // thorough tier finishes without hitting its time cap on this machine)
    let delta: usize = match (prop, tier) {
        ("C03", _) => 2,
        ("C06", Tier::Thorough) => 1,
        ("C08", _) => 1,
        ("C09", _) => 1,
        ("C14", Tier::Quick) => 2,
        ("C14", Tier::Thorough) => 2,
        ("C16", _) => 2,
        ("C17", _) => 1,
        ("C19", Tier::Quick) => 1,
        ("C19", Tier::Thorough) => 2,
        ("C20", _) => 1,
        _ => 0,
    };
    let mut plans = plans;
    for p in plans.iter_mut() {
        for d in p.depth_by_devs.iter_mut() {
            *d += delta;
        }
        // histories without scheduling deviations are cheap: one step deeper in the quick tier
        // (measured on an idle machine each quick check stays under 15 s; under load the
        // time cap ends the deepest level early and the evidence says so)
        if tier == Tier::Quick && matches!(prop, "C08" | "C14" | "C19" | "C16") {
            p.depth_by_devs[0] += 1;
        }
    }
    let total = budget.mul_f64(budget_share);
    let started = std::time::Instant::now();
    for (i, p) in plans.iter().enumerate() {
        // what the plans before this one did not use of their share is passed on
        let left = total.saturating_sub(started.elapsed());
        let share = (left / (plans.len() - i) as u32).max(per_plan / 4);
        let params = Params {
            depth_by_devs: p.depth_by_devs.clone(),
            max_states: if tier == Tier::Quick { 2_000_000 } else { 6_000_000 },
            time_cap: share,
            run_closure: true,
        };
        let st = explore::<RouterWorld>(&p.cfg, &params, reporter, ev);
        outcomes_total += st.outcomes;
        per_cfg.push(json!({
            "variant": p.cfg.variant, "v5": p.cfg.v5, "order_desc": p.cfg.order_desc, "max_out": p.cfg.max_out,
            "seg": [p.cfg.seg_size, p.cfg.seg_count], "strategy": p.cfg.strategy,
            "depth_by_deviations": p.depth_by_devs, "states": st.states, "transitions": st.transitions,
            "states_by_deviations": st.states_by_devs, "max_depth": st.max_depth, "distinct_outcomes": st.outcomes,
            "per_depth": st.per_depth, "capped": st.capped, "pruned_on_violation": st.pruned_on_violation,
        }));
        println!(
            "{prop} variant {} : states={} transitions={} depth={} outcomes={} capped={:?}",
            p.cfg.variant, st.states, st.transitions, st.max_depth, st.outcomes, st.capped
        );
    }
    if outcomes_total < 2 * plans.len() as u64 {
        crate::vcore::machinery_error(&format!("{prop}: vacuous exploration (no distinct outcomes)"));
    }
    ev.set("per_configuration", json!(per_cfg));
    ev.set("distinct_outcomes", json!(outcomes_total));
    ev.assumptions = vec![
        "router steps (one run_inner) and link steps (push, notify, take wake-up + swap buffer, Ready) are explored as atomic; lock-level interleavings inside one router call are not".into(),
        "2-5 client identities, alphabets and depth bounds as listed per configuration".into(),
        "oracle = reference model in engine/src/e1/model.rs fed by consumed and decoded packets only".into(),
    ];
}

pub fn replay(v: &serde_json::Value) -> i32 {
    let cfg: Cfg = serde_json::from_value(v["cfg"].clone()).unwrap();
    let actions: Vec<Act> = serde_json::from_value(v["actions"].clone()).unwrap();
    let viols = replay_print::<RouterWorld>(&cfg, &actions, true);
    if viols.is_empty() {
        println!("replay: no violation");
        0
    } else {
        println!("replay: {} violation(s) reproduced", viols.len());
        1
    }
}
