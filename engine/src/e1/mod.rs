//! E1 `routerworld` — the real `Router`, stepped through the verification hooks.
//!
//! One real `Router::new(0, cfg)`; a few client identities, each with at most one live
//! link (the raw pieces a link shares with the router: incoming buffer, outgoing buffer,
//! wake-up handle) and any number of ended links whose late events can still be
//! delivered. Packets enter as bytes (client encoder -> broker decoder) and leave as bytes
//! (broker encoder -> client decoder). The router is driven by its real `run_inner`.
pub mod hostile;
pub mod model;
pub mod multi;
pub mod props;
pub mod run;

use crate::vcore::explore::World;
use crate::vcore::{catch, fp128, Violation};
use crate::wire::{self, Out, Props, Rx, Tx};
use multi::Models;
use parking_lot::Mutex;
use rumqttd::protocol as bp;
use rumqttd::verif::{Event, OrderPolicy, PendingLink, ShadowRequest, VerifLink};
use rumqttd::{Notification, Router, RouterConfig, Strategy};
use serde::{Deserialize, Serialize};
use std::collections::VecDeque;
use std::hash::{Hash, Hasher};
use std::sync::Arc;

pub const NAMES: [&str; 5] = ["c0", "c1", "c2", "c3", "c4"];

#[derive(Clone, Debug, Serialize, Deserialize)]
pub struct Cfg {
    /// property whose alphabet and oracle are active
    pub prop: String,
    /// scenario variant within the property
    pub variant: u8,
    pub seg_size: usize,
    pub seg_count: usize,
    pub max_out: u64,
    /// 0 round-robin, 1 random, 2 sticky
    pub strategy: u8,
    pub order_desc: bool,
    pub max_conn: usize,
    /// protocol version per client identity (true = MQTT 5)
    pub v5: Vec<bool>,
    /// allow manual scheduling episodes (deviations)
    pub manual: bool,
    pub topics: Vec<String>,
    pub filters: Vec<String>,
    /// actions executed when the world is created (not counted as depth)
    pub prelude: Vec<Act>,
    /// pad publish payloads to this many bytes (0: short payloads)
    #[serde(default)]
    pub pad: usize,
}

impl Cfg {
    pub fn base(prop: &str) -> Cfg {
        Cfg {
            prop: prop.to_string(),
            variant: 0,
            seg_size: 1024 * 1024,
            seg_count: 10,
            max_out: 200,
            strategy: 0,
            order_desc: false,
            max_conn: 10,
            v5: vec![false; 5],
            manual: true,
            topics: vec![],
            filters: vec![],
            prelude: vec![],
            pad: 0,
        }
    }
    pub fn prop_static(&self) -> &'static str {
        match self.prop.as_str() {
            "C01" => "C01",
            "C03" => "C03",
            "C06" => "C06",
            "C08" => "C08",
            "C09" => "C09",
            "C14" => "C14",
            "C15" => "C15",
            "C16" => "C16",
            "C17" => "C17",
            "C19" => "C19",
            "C20" => "C20",
            "C12" => "C12",
            _ => "C??",
        }
    }
}

#[derive(Clone, Debug, PartialEq, Eq, PartialOrd, Ord, Hash, Serialize, Deserialize)]
pub enum LateEv {
    Data,
    Ready,
    Disconnect,
    Will,
}

#[derive(Clone, Debug, PartialEq, Eq, PartialOrd, Ord, Hash, Serialize, Deserialize)]
pub enum Act {
    Connect { c: u8, clean: bool, will: u8 },
    Sub { c: u8, f: u8, qos: u8 },
    Sub2 { c: u8, f1: u8, f2: u8, qos: u8 },
    Unsub { c: u8, f: u8 },
    Unsub2 { c: u8, f1: u8, f2: u8 },
    /// props: 0 none; otherwise an index into the property table of the scenario
    Pub { c: u8, t: u8, qos: u8, retain: bool, empty: bool, props: u8 },
    /// release the oldest QoS2 publish whose PUBREC arrived
    Rel { c: u8 },
    /// the same release, but the PUBREL carries MQTT 5 properties
    RelProps { c: u8 },
    Burst { c: u8, t: u8, qos: u8, n: u16 },
    /// acknowledge the oldest received, unacknowledged forward (PUBACK or PUBREC)
    Ack { c: u8 },
    /// PUBCOMP for the oldest PUBREL received
    Comp { c: u8 },
    /// acknowledge everything received so far, in order (incl. PUBCOMPs)
    AckAll { c: u8 },
    Ping { c: u8 },
    DiscPkt { c: u8 },
    /// link failure: Disconnect event, then PublishWill
    Drop { c: u8 },
    /// link failure whose events are delivered later (`Late`)
    DropLate { c: u8 },
    /// hostile / malformed input, meaning defined by the scenario
    Bad { c: u8, kind: u8 },
    /// several packets pushed before one DeviceData notification
    Batch { c: u8, kind: u8 },
    /// two request packets pushed before one DeviceData notification (kinds: `hostile::pair`)
    Pair { c: u8, a: u8, b: u8 },
    /// raw event for a connection id (C03)
    Raw { id: u8, kind: u8 },
    /// deliver the next late event of ended link `e`
    Late { e: u8 },
    // ---- manual scheduling (deviation) ----
    /// stop settling after every action
    Hold,
    /// one real `run_inner`
    Turn,
    /// link of client c takes one wake-up and swaps its outgoing buffer
    Drain { c: u8 },
    /// run to quiescence and return to automatic scheduling
    Settle,
    /// the link of c stops draining its outgoing buffer (slow consumer)
    Stall { c: u8 },
    Unstall { c: u8 },
    /// acknowledge the n oldest received forwards in one batch (PUBACK / PUBREC)
    AckN { c: u8, n: u16 },
    /// complete the n oldest received PUBRELs in one batch
    CompN { c: u8, n: u16 },
    /// from now on the random balancing strategy draws member `k` (modulo the group size)
    Pick { k: u8 },
    /// like `AckN`, followed in the same batch by a request of the same client that asks for a
    /// reply: 0 PINGREQ, 1 SUBSCRIBE (last filter), 2 QoS 1 PUBLISH (topic 0)
    AckNThen { c: u8, n: u16, then: u8 },
    /// DISCONNECT packet, then the client closes the socket: the link task sees the end of
    /// the stream before it notices that the router dropped it, so its Disconnect event
    /// (and the PublishWill) arrive late (`Late`)
    DiscThenDrop { c: u8 },
}

pub struct Link {
    pub uid: u32,
    pub id: usize,
    pub wake: flume::Receiver<()>,
    pub ibuf: Arc<Mutex<VecDeque<bp::Packet>>>,
    pub obuf: Arc<Mutex<VecDeque<Notification>>>,
    /// packets pushed and not yet taken by the router
    pub pushed: Vec<Tx>,
    /// an Unschedule was seen: the link owes the router a Ready
    pub ready_due: bool,
    /// the link stopped draining (slow consumer)
    pub stalled: bool,
    /// topic-alias-maximum this connection announced in CONNECT
    pub alias_max: u16,
    /// what an MQTT 5 client remembers of the aliases the broker established
    pub aliases: std::collections::BTreeMap<u16, String>,
}

pub struct Client {
    pub name: String,
    pub v5: bool,
    pub link: Option<Link>,
    pub next_pkid: u16,
    /// forwards received with QoS>0 and not yet acknowledged: (pkid, qos)
    pub unacked: VecDeque<(u16, u8)>,
    /// PUBRELs received from the broker and not yet completed
    pub rels: VecDeque<u16>,
    /// QoS2 publishes sent: (pkid, PUBREC received)
    pub q2: VecDeque<(u16, bool)>,
}

pub struct Ended {
    pub name: String,
    pub ci: usize,
    pub uid: u32,
    pub id: usize,
    pub pending: VecDeque<LateEv>,
    /// delivered promptly by the default scheduler (false: only by explicit `Late` actions)
    pub auto: bool,
    /// packets pushed by the link before it ended and not yet taken by the router
    pub pushed: Vec<Tx>,
}

/// mirror of what the harness put on the router channel
#[derive(Clone, Debug, Hash, PartialEq, Eq)]
pub enum ChanEv {
    Data(usize, u32),
    Ready(u32),
    Disconnect(usize, u32),
    Will(String),
    RawOther,
}

pub struct RouterWorld {
    pub router: Option<Router>,
    pub tx: flume::Sender<(usize, Event)>,
    pub clients: Vec<Client>,
    pub ended: Vec<Ended>,
    pub outbox: VecDeque<ChanEv>,
    pub manual: bool,
    pub next_uid: u32,
    pub tag: u32,
    pub model: Models,
    pub dead: Option<String>,
    pub turns: u64,
    /// violations raised by asynchronous steps (drains) since the last apply
    pub pending_viols: Vec<Violation>,
    pub prop: &'static str,
    pub max_conn: usize,
    /// late Disconnect events delivered for a slot that had a new occupant: (slot, whose)
    pub stale_disc: Vec<(usize, String)>,
    pub pad: usize,
    /// answer given to the random balancing strategy (member index modulo group size)
    pub pick_mode: u8,
    /// the configuration uses the random strategy
    pub pick_enabled: bool,
    /// print every packet a client receives (VERIF_TRACE_RX, replay debugging)
    pub trace_rx: bool,
}

fn router_config(cfg: &Cfg) -> RouterConfig {
    RouterConfig {
        max_connections: cfg.max_conn,
        max_outgoing_packet_count: cfg.max_out,
        max_segment_size: cfg.seg_size,
        max_segment_count: cfg.seg_count,
        custom_segment: None,
        initialized_filters: None,
        shared_subscriptions_strategy: match cfg.strategy {
            0 => Strategy::RoundRobin,
            1 => Strategy::Random,
            _ => Strategy::Sticky,
        },
    }
}

impl RouterWorld {
    pub fn viol(&mut self, code: &str, detail: String) {
        let p = self.prop;
        self.pending_viols.push(Violation::new(p, code, detail));
    }

    pub fn payload_for(tag: u32, empty: bool, pad: usize) -> Vec<u8> {
        if empty {
            vec![]
        } else {
            // padded payloads make 1 KB commit-log segments rotate after one or two messages
            let mut v = format!("m{tag}").into_bytes();
            if v.len() < pad {
                v.resize(pad, b'.');
            }
            v
        }
    }

    /// Retention proviso: a subscription whose read position points into a segment the log
    /// has already discarded lost messages through retention, not through a routing fault.
    /// Completeness is waived for it (order, duplicates and spurious deliveries still count).
    /// where every reader stands: (connection id or saved client id, filter index, segment)
    #[cfg(feature = "snapshot")]
    fn cursor_positions(&self) -> Vec<(Option<usize>, Option<String>, usize, u64)> {
        let mut v = vec![];
        let Some(r) = self.router.as_ref() else { return v };
        let snap = r.verif_snapshot();
        for c in snap.connections.iter() {
            for q in c.requests.iter() {
                v.push((Some(c.id), None, q.1, q.3 .0));
            }
            for e in c.inflight.iter() {
                if let Some(cur) = e.2 {
                    v.push((Some(c.id), None, e.1, cur.0));
                }
            }
        }
        for f in snap.filters.iter() {
            for (id, q) in f.waiters.iter() {
                v.push((Some(*id), None, f.idx, q.3 .0));
            }
            // (nobody, nobody): the head of this filter's log before the turn
            v.push((None, None, f.idx, f.head));
        }
        for g in snap.graveyard.iter() {
            if let Some((reqs, _, _)) = &g.session {
                for q in reqs.iter() {
                    v.push((None, Some(g.client_id.clone()), q.1, q.3 .0));
                }
            }
        }
        v
    }

    /// readers whose segment was discarded during the turn that has just run (the router
    /// appends everything first and serves the readers afterwards, so they had no chance)
    #[cfg(feature = "snapshot")]
    fn mark_overtaken(&mut self, before: Vec<(Option<usize>, Option<String>, usize, u64)>) {
        let Some(r) = self.router.as_ref() else { return };
        let snap = r.verif_snapshot();
        for f in snap.filters.iter() {
            let mut ids: Vec<usize> = before.iter().filter(|p| p.2 == f.idx && p.3 < f.head).filter_map(|p| p.0).collect();
            let mut names: Vec<String> = before.iter().filter(|p| p.2 == f.idx && p.3 < f.head).filter_map(|p| p.1.clone()).collect();
            // the log discarded something during this turn: a subscription made in the same
            // turn may have been overtaken as well (it had no cursor before the turn), so
            // completeness is waived for every reader of this filter
            let head_before = before.iter().find(|p| p.0.is_none() && p.1.is_none() && p.2 == f.idx).map(|p| p.3);
            if head_before.map_or(f.head > 0, |h| f.head > h) {
                ids = snap.connections.iter().map(|c| c.id).collect();
                names = snap.graveyard.iter().map(|g| g.client_id.clone()).collect();
            }
            if !ids.is_empty() || !names.is_empty() {
                self.model.mark_lagged(&f.filter, &ids, &names);
            }
        }
    }

    pub fn update_lag(&mut self) {
        #[cfg(feature = "snapshot")]
        {
            let Some(r) = self.router.as_ref() else { return };
            let snap = r.verif_snapshot();
            for f in snap.filters.iter() {
                if f.head == 0 {
                    continue;
                }
                // connection id -> lagging on this filter?
                let mut lagging: Vec<usize> = vec![];
                for c in snap.connections.iter() {
                    let behind = c.requests.iter().any(|q| q.1 == f.idx && q.3 .0 < f.head)
                        || c.inflight.iter().any(|e| e.1 == f.idx && e.2.is_some_and(|cur| cur.0 < f.head));
                    if behind {
                        lagging.push(c.id);
                    }
                }
                for (id, q) in f.waiters.iter() {
                    if q.3 .0 < f.head {
                        lagging.push(*id);
                    }
                }
                let mut names: Vec<String> = vec![];
                for g in snap.graveyard.iter() {
                    if let Some((reqs, _, _)) = &g.session {
                        if reqs.iter().any(|q| q.1 == f.idx && q.3 .0 < f.head) {
                            names.push(g.client_id.clone());
                        }
                    }
                }
                self.model.mark_lagged(&f.filter, &lagging, &names);
            }
        }
    }

    pub fn fresh_tag(&mut self) -> u32 {
        self.tag += 1;
        self.tag
    }

    pub fn with_router<R>(&mut self, what: &str, f: impl FnOnce(&mut Router) -> R) -> Option<R> {
        let r = self.router.as_mut()?;
        match catch(|| f(r)) {
            Ok(v) => Some(v),
            Err(p) => {
                self.router = None;
                let msg = format!("routing core panicked during {what}: {p}");
                self.dead = Some(msg.clone());
                self.viol("router_panic", msg);
                None
            }
        }
    }

    /// One real `run_inner` (if it would not block). Mirrors what the router consumed.
    pub fn turn(&mut self) -> bool {
        if self.router.is_none() {
            return false;
        }
        // the "random" balancing strategy asks the harness: the member index in force
        // (`Act::Pick`) answers every draw of this turn
        if self.pick_enabled {
            rumqttd::verif::set_picks(Some(vec![self.pick_mode as usize; 4096]));
        }
        #[cfg(feature = "snapshot")]
        let before = if self.pad > 0 { self.cursor_positions() } else { vec![] };
        let ran = self.with_router("run_inner", |r| r.verif_turn()).unwrap_or(false);
        self.turns += 1;
        if ran || !self.outbox.is_empty() {
            // everything that was on the channel has been handled, in order
            let evs: Vec<ChanEv> = self.outbox.drain(..).collect();
            for ev in evs {
                self.mirror_event(ev);
            }
        }
        if self.pad > 0 {
            // retention may have discarded what a subscription had not read yet: the model
            // (which has just learnt what the router consumed in this turn) has to know
            // before the clients look at what the turn sent them
            #[cfg(feature = "snapshot")]
            self.mark_overtaken(before);
            self.update_lag();
        }
        ran
    }

    fn take_pushed(&mut self, ci: usize, uid: u32) -> Vec<Tx> {
        if let Some(l) = self.clients[ci].link.as_mut() {
            if l.uid == uid {
                return std::mem::take(&mut l.pushed);
            }
        }
        for e in self.ended.iter_mut() {
            if e.uid == uid {
                return std::mem::take(&mut e.pushed);
            }
        }
        vec![]
    }

    fn mirror_event(&mut self, ev: ChanEv) {
        match ev {
            ChanEv::Data(ci, uid) => {
                let pushed = self.take_pushed(ci, uid);
                if self.model.clients[ci].conn_uid != uid {
                    return;
                }
                for tx in pushed {
                    // (a model in which the connection has ended ignores the rest)
                    self.model.consumed(ci, &tx);
                }
            }
            ChanEv::Ready(_) => {}
            ChanEv::Disconnect(ci, uid) => {
                if self.model.clients[ci].conn_uid == uid {
                    self.model.link_lost(ci);
                }
            }
            ChanEv::Will(name) => {
                self.model.will_event(&name);
            }
            ChanEv::RawOther => {}
        }
    }

    pub fn send_event(&mut self, id: usize, ev: Event, mirror: ChanEv) {
        if self.router.is_none() {
            // the routing core is dead (reported as a violation): nobody reads the channel
            return;
        }
        if self.tx.try_send((id, ev)).is_err() {
            crate::vcore::machinery_error("router channel full: harness bound exceeded");
        }
        self.outbox.push_back(mirror);
    }

    /// push packets into the link's incoming buffer (no notification). Returns false when
    /// the broker's decoder rejected a frame (a real link ends there).
    pub fn push(&mut self, ci: usize, txs: Vec<Tx>) -> bool {
        let v5 = self.clients[ci].v5;
        let Some(l) = self.clients[ci].link.as_mut() else {
            return true;
        };
        for tx in txs {
            if tx.is_marker() {
                l.pushed.push(tx);
                continue;
            }
            match wire::tx_to_broker(&tx, v5) {
                Ok(p) => {
                    l.ibuf.lock().push_back(p);
                    l.pushed.push(tx);
                }
                Err(e) => {
                    self.model.note(format!("frame rejected before the router: {e}"));
                    return false;
                }
            }
        }
        true
    }

    pub fn notify(&mut self, ci: usize) {
        let Some(l) = self.clients[ci].link.as_ref() else {
            return;
        };
        let (id, uid) = (l.id, l.uid);
        self.send_event(id, Event::DeviceData, ChanEv::Data(ci, uid));
    }

    pub fn send(&mut self, ci: usize, txs: Vec<Tx>) {
        let ok = self.push(ci, txs);
        let has = self.clients[ci].link.as_ref().is_some_and(|l| !l.pushed.is_empty());
        if has {
            self.notify(ci);
        }
        if !ok {
            // network-level protocol error: the link task ends, Disconnect then PublishWill
            props::end_link(self, ci, vec![LateEv::Disconnect, LateEv::Will], true);
        }
    }

    /// The link takes one wake-up and swaps the outgoing buffer. Returns false when there
    /// was no wake-up. Detects a handle dropped by the router.
    pub fn drain_once(&mut self, ci: usize) -> bool {
        let v5 = self.clients[ci].v5;
        let Some(l) = self.clients[ci].link.as_mut() else {
            return false;
        };
        match l.wake.try_recv() {
            Ok(()) => {}
            Err(flume::TryRecvError::Empty) => return false,
            Err(flume::TryRecvError::Disconnected) => {
                // router dropped this connection: link ends with Error::Link (no Disconnect event)
                self.link_closed_by_router(ci);
                return true;
            }
        }
        let notifs: VecDeque<Notification> = {
            let mut g = l.obuf.lock();
            std::mem::take(&mut *g)
        };
        let mut unscheduled = false;
        for n in notifs {
            match wire::notification_out(n, v5) {
                Out::Packet(rx) => self.received(ci, rx),
                Out::Unschedule => unscheduled = true,
                Out::Ignored => {}
                Out::EncodeError(e) => self.viol("encode_error", format!("towards {} (v5={v5}): {e}", NAMES[ci])),
                Out::EncodePanic(e) => self.viol("encode_panic", format!("towards {} (v5={v5}): {e}", NAMES[ci])),
                Out::ClientDecodeError(e) => {
                    // client/broker codec interoperability is property C04's business
                    // (engine E3); here it only counts for the cross-version property
                    if self.prop == "C20" {
                        self.viol("client_cannot_decode", format!("towards {} (v5={v5}): {e}", NAMES[ci]))
                    } else {
                        self.model.note(format!("client cannot decode: {e}"));
                    }
                }
            }
        }
        if unscheduled {
            if let Some(l) = self.clients[ci].link.as_mut() {
                l.ready_due = true;
            }
        }
        true
    }

    fn received(&mut self, ci: usize, mut rx: Rx) {
        // an MQTT 5 client resolves the topic aliases the broker establishes (MQTT 5, 3.3.2.3.4)
        if let Rx::Publish { topic, props: Some(p), .. } = &mut rx {
            if let (Some(a), Some(l)) = (p.alias, self.clients[ci].link.as_mut()) {
                let mut bad = None;
                if a == 0 || a > l.alias_max {
                    bad = Some(format!("alias {a} outside the announced maximum {}", l.alias_max));
                } else if topic.is_empty() {
                    match l.aliases.get(&a) {
                        Some(t) => *topic = t.clone(),
                        None => bad = Some(format!("alias {a} used with an empty topic before it was established")),
                    }
                } else {
                    l.aliases.insert(a, topic.clone());
                }
                if let Some(d) = bad {
                    self.viol("bad_topic_alias", format!("towards {}: {d}", NAMES[ci]));
                }
            }
        }
        {
            let c = &mut self.clients[ci];
            match &rx {
                Rx::Publish { qos, pkid, .. } if *qos > 0 => c.unacked.push_back((*pkid, *qos)),
                Rx::PubRel(id) => c.rels.push_back(*id),
                Rx::PubRec(id) => {
                    if let Some(e) = c.q2.iter_mut().find(|e| e.0 == *id && !e.1) {
                        e.1 = true;
                    }
                }
                _ => {}
            }
        }
        if self.trace_rx {
            eprintln!("    rx {} {}", NAMES[ci], format!("{rx:?}").chars().take(160).collect::<String>());
        }
        self.model.received(ci, &rx);
    }

    /// drop the alternative models that no longer explain what has been observed; when the
    /// router has handled everything it was sent, that includes who is still connected
    fn resolve_alternatives(&mut self) {
        if self.model.alternatives() == 1 {
            return;
        }
        #[cfg(feature = "snapshot")]
        if !self.manual && self.outbox.is_empty() {
            if let Some(r) = self.router.as_ref() {
                let snap = r.verif_snapshot();
                let mut have: Vec<&str> = snap.connection_map.iter().map(|(k, _)| k.as_str()).collect();
                have.sort();
                self.model.resolve(Some(&have));
                // the premise of the closure-time oracles may already hold here
                let quiet = self.clients.iter().all(|c| c.unacked.is_empty() && c.rels.is_empty() && c.link.as_ref().is_none_or(|l| !l.stalled && l.obuf.lock().is_empty()))
                    && self.ended.iter().all(|e| e.pending.is_empty() || e.auto);
                if quiet {
                    self.model.resolve_quiet();
                }
                return;
            }
        }
        self.model.resolve(None);
    }

    fn link_closed_by_router(&mut self, ci: usize) {
        let c = &mut self.clients[ci];
        if let Some(l) = c.link.take() {
            // whatever is still in the outgoing buffer is delivered first by a real link
            // (exchange succeeds for queued wake-ups); here the buffer was already drained
            let name = c.name.clone();
            c.unacked.clear();
            c.rels.clear();
            c.q2.clear();
            let stale = self.stale_disc.iter().position(|(id, _)| *id == l.id);
            if let (Some(k), true) = (stale, self.model.registered(ci)) {
                let (slot, who) = self.stale_disc.remove(k);
                let d = format!(
                    "late Disconnect event of an ended connection of {who} (slot {slot}) removed the live connection of {} that occupies the slot now",
                    NAMES[ci]
                );
                self.viol("late_event_hit_live_connection", d);
                self.model.link_lost(ci);
            }
            self.model.link_ended_by_router(ci);
            self.ended.push(Ended {
                name,
                ci,
                uid: l.uid,
                id: l.id,
                pending: VecDeque::from(vec![LateEv::Will]),
                auto: true,
                pushed: l.pushed,
            });
        }
    }

    /// Send Ready for every link that owes one.
    pub fn send_readys(&mut self) -> bool {
        let mut any = false;
        for ci in 0..self.clients.len() {
            let due = self.clients[ci]
                .link
                .as_ref()
                .is_some_and(|l| l.ready_due && !l.stalled);
            if due {
                let (id, uid) = {
                    let l = self.clients[ci].link.as_mut().unwrap();
                    l.ready_due = false;
                    (l.id, l.uid)
                };
                self.send_event(id, Event::Ready, ChanEv::Ready(uid));
                any = true;
            }
        }
        any
    }

    fn deliver_auto_late(&mut self) -> bool {
        // in automatic mode ended links deliver their remaining events promptly
        let mut any = false;
        let mut i = 0;
        while i < self.ended.len() {
            while self.ended[i].auto {
                let Some(ev) = self.ended[i].pending.pop_front() else {
                    break;
                };
                let (id, uid, ci, name) = (
                    self.ended[i].id,
                    self.ended[i].uid,
                    self.ended[i].ci,
                    self.ended[i].name.clone(),
                );
                self.deliver_late(id, uid, ci, &name, ev);
                any = true;
            }
            i += 1;
        }
        // (an ended link whose last packets the router has not taken yet is still needed:
        // the model learns from `pushed` what the router consumed)
        self.ended.retain(|e| !e.pending.is_empty() || !e.pushed.is_empty());
        any
    }

    pub fn deliver_late(&mut self, id: usize, uid: u32, ci: usize, name: &str, ev: LateEv) {
        match ev {
            LateEv::Data => self.send_event(id, Event::DeviceData, ChanEv::Data(ci, uid)),
            LateEv::Ready => self.send_event(id, Event::Ready, ChanEv::RawOther),
            LateEv::Disconnect => {
                // remember when the slot of the ended link has a new occupant by now
                let occupied = self
                    .clients
                    .iter()
                    .any(|c| c.link.as_ref().is_some_and(|l| l.id == id && l.uid != uid));
                if occupied {
                    self.stale_disc.push((id, name.to_string()));
                }
                self.send_event(id, Event::Disconnect, ChanEv::Disconnect(ci, uid))
            }
            LateEv::Will => self.send_event(
                id,
                Event::PublishWill((name.to_string(), None)),
                ChanEv::Will(name.to_string()),
            ),
        }
    }

    fn quiet(&self) -> bool {
        if !self.outbox.is_empty() {
            return false;
        }
        for c in self.clients.iter() {
            if let Some(l) = c.link.as_ref() {
                if l.stalled {
                    continue;
                }
                if !l.wake.is_empty() || l.wake.is_disconnected() || l.ready_due {
                    return false;
                }
            }
        }
        true
    }

    /// Default scheduler: run the router until it would block, let every live link drain
    /// and signal Ready, repeat until nothing moves.
    pub fn settle(&mut self, auto_late: bool) {
        for _round in 0..20_000 {
            if self.router.is_none() {
                return;
            }
            let mut progressed = false;
            for _ in 0..4 {
                let had_events = !self.outbox.is_empty();
                let ran = self.turn();
                if !ran {
                    break;
                }
                if had_events {
                    progressed = true;
                }
                if self.quiet() {
                    break;
                }
            }
            for ci in 0..self.clients.len() {
                let stalled = self.clients[ci].link.as_ref().is_some_and(|l| l.stalled);
                if stalled {
                    continue;
                }
                while self.drain_once(ci) {
                    progressed = true;
                }
            }
            if self.send_readys() {
                progressed = true;
            }
            if auto_late && self.deliver_auto_late() {
                progressed = true;
            }
            if !progressed && self.outbox.is_empty() {
                return;
            }
        }
        self.viol(
            "livelock",
            "no quiescence after 20000 scheduling rounds".to_string(),
        );
    }

    pub fn connect(&mut self, ci: usize, clean: bool, will: Option<bp::LastWill>, topic_alias_max: u16) {
        // takeover: the old link object keeps existing on the client side for a moment
        let name = self.clients[ci].name.clone();
        let old = self.clients[ci].link.take();
        let pending = {
            // an MQTT 5 client registers its will with properties
            let will_props = (self.clients[ci].v5 && will.is_some()).then(|| bp::LastWillProperties {
                delay_interval: None,
                payload_format_indicator: Some(1),
                message_expiry_interval: Some(3600),
                content_type: Some("text/will".into()),
                response_topic: Some("resp/w".into()),
                correlation_data: Some(bytes::Bytes::from_static(&[9, 9])),
                user_properties: vec![("k".into(), "v".into())],
            });
            let b = rumqttd::local::LinkBuilder::new(&name, self.tx.clone())
                .clean_session(clean)
                .last_will(will.clone())
                .last_will_properties(will_props)
                .topic_alias_max(topic_alias_max);
            match b.verif_split() {
                Ok(p) => p,
                Err(e) => crate::vcore::machinery_error(&format!("verif_split: {e:?}")),
            }
        };
        self.outbox.push_back(ChanEv::RawOther);
        self.model.connect_sent(ci, clean, will.is_some(), old.is_some());
        if let Some(l) = old {
            self.clients[ci].unacked.clear();
            self.clients[ci].rels.clear();
            self.clients[ci].q2.clear();
            // the replaced link notices the dropped handle; its task publishes the will
            // only when the new connection asked for a clean session (E6 conformance)
            let mut p = VecDeque::new();
            if clean {
                p.push_back(LateEv::Will);
            }
            self.ended.push(Ended {
                name: name.clone(),
                ci,
                uid: l.uid,
                id: l.id,
                pending: p,
                auto: true,
                pushed: l.pushed,
            });
        }
        // the router handles the Connect event (alone on the channel by construction)
        let mut pending = Some(pending);
        let mut link: Option<VerifLink> = None;
        for _ in 0..3 {
            self.turn();
            match pending.take().unwrap().finish() {
                Ok(Some(l)) => {
                    link = Some(l);
                    break;
                }
                Ok(None) => break,
                Err(p) => pending = Some(p),
            }
            if self.router.is_none() {
                break;
            }
        }
        self.next_uid += 1;
        let uid = self.next_uid;
        match link {
            Some(l) => {
                let v5 = self.clients[ci].v5;
                let connack = wire::notification_out(l.connack.clone(), v5);
                self.clients[ci].link = Some(Link {
                    uid,
                    id: l.id,
                    wake: l.wake,
                    ibuf: l.ibuf,
                    obuf: l.obuf,
                    pushed: vec![],
                    ready_due: false,
                    stalled: false,
                    alias_max: topic_alias_max,
                    aliases: Default::default(),
                });
                self.clients[ci].unacked.clear();
                self.clients[ci].rels.clear();
                self.clients[ci].q2.clear();
                self.model.connected(ci, l.id, uid);
                match connack {
                    Out::Packet(rx) => self.received(ci, rx),
                    Out::EncodeError(e) | Out::EncodePanic(e) | Out::ClientDecodeError(e) => {
                        self.viol("connack_not_encodable", e)
                    }
                    _ => {}
                }
            }
            None => {
                self.model.connect_refused(ci);
                if self.router.is_some() {
                    let live = self.model.clients.iter().filter(|c| c.registered).count();
                    if live < self.max_conn {
                        self.viol(
                            "connect_refused",
                            format!("{} was refused although only {live} of {} connections are in use", NAMES[ci], self.max_conn),
                        );
                    }
                }
            }
        }
    }

    /// After a late event of the ended link (`name`, slot `id`) was handled: every client
    /// that was connected before and did nothing itself must still be registered.
    fn check_late_effect(&mut self, name: &str, id: usize, ev: &LateEv, before: &[bool]) {
        #[cfg(feature = "snapshot")]
        {
            let Some(r) = self.router.as_ref() else { return };
            let snap = r.verif_snapshot();
            let live: Vec<String> = snap.connection_map.iter().map(|(k, _)| k.clone()).collect();
            for (ci, was) in before.iter().enumerate() {
                if *was && self.model.registered(ci) && !live.iter().any(|n| n == NAMES[ci]) {
                    let occupant_slot = self.model.clients[ci].conn_id;
                    let d = format!(
                        "late {ev:?} event of an ended connection of {name} (slot {id}) removed the live connection of {} (slot {occupant_slot})",
                        NAMES[ci]
                    );
                    self.viol("late_event_hit_live_connection", d);
                    // keep the model in step so that one defect is reported once
                    self.model.link_lost(ci);
                    if let Some(l) = self.clients[ci].link.take() {
                        drop(l);
                    }
                }
            }
        }
        #[cfg(not(feature = "snapshot"))]
        {
            let _ = (name, id, ev, before);
        }
    }

    /// C03: from this state a fresh subscriber and a fresh publisher are served
    pub fn probe(&mut self) {
        if self.dead.is_some() {
            return;
        }
        let (s, p) = (3usize, 4usize);
        for ci in [s, p] {
            if self.clients[ci].link.is_none() {
                self.connect(ci, true, None, 0);
            }
        }
        self.settle(true);
        if self.clients[s].link.is_none() || self.clients[p].link.is_none() {
            self.viol("probe_connect", "a fresh client could not connect after this history".into());
            return;
        }
        let before = self.model.clients[s].forwards;
        self.send(s, vec![Tx::Subscribe { pkid: 60001, filters: vec![("probe/#".into(), 0)], sub_id: None }]);
        self.settle(true);
        self.send(
            p,
            vec![Tx::Publish {
                topic: "probe/x".into(),
                qos: 0,
                retain: false,
                dup: false,
                pkid: 0,
                payload: b"probe".to_vec(),
                props: None,
            }],
        );
        self.settle(true);
        if self.dead.is_none() && self.model.clients[s].forwards != before + 1 {
            self.viol(
                "probe_delivery",
                "a fresh subscriber did not receive a fresh publisher's message after this history".into(),
            );
        }
    }

    pub fn snapshot_hash(&self, h: &mut impl Hasher) {
        match self.router.as_ref() {
            #[cfg(feature = "snapshot")]
            Some(r) => r.verif_snapshot().hash(h),
            #[cfg(not(feature = "snapshot"))]
            Some(_) => 1u8.hash(h),
            None => 0u8.hash(h),
        }
    }

    fn harness_hash(&self, h: &mut impl Hasher) {
        self.manual.hash(h);
        self.pick_mode.hash(h);
        self.stale_disc.hash(h);
        self.outbox.hash(h);
        self.dead.is_some().hash(h);
        for c in self.clients.iter() {
            c.next_pkid.hash(h);
            c.unacked.hash(h);
            c.rels.hash(h);
            c.q2.hash(h);
            match c.link.as_ref() {
                None => 0u8.hash(h),
                Some(l) => {
                    1u8.hash(h);
                    l.id.hash(h);
                    l.wake.len().hash(h);
                    l.wake.is_disconnected().hash(h);
                    l.pushed.hash(h);
                    l.ready_due.hash(h);
                    l.stalled.hash(h);
                    l.aliases.hash(h);
                    let ob = l.obuf.lock();
                    ob.len().hash(h);
                    if !ob.is_empty() {
                        format!("{:?}", *ob).hash(h);
                    }
                }
            }
        }
        for e in self.ended.iter() {
            (e.name.as_str(), e.id, &e.pending).hash(h);
        }
    }
}

impl World for RouterWorld {
    type Cfg = Cfg;
    type Action = Act;
    const ENGINE: &'static str = "e1_router";

    fn new(cfg: &Cfg) -> Self {
        rumqttd::verif::set_order_policy(if cfg.order_desc {
            OrderPolicy::Descending
        } else {
            OrderPolicy::Ascending
        });
        rumqttd::verif::set_picks(Some(vec![]));
        let router = Router::new(0, router_config(cfg));
        let tx = router.verif_link();
        let clients = (0..cfg.v5.len())
            .map(|i| Client {
                name: NAMES[i].to_string(),
                v5: cfg.v5[i],
                link: None,
                next_pkid: 0,
                unacked: VecDeque::new(),
                rels: VecDeque::new(),
                q2: VecDeque::new(),
            })
            .collect();
        let mut w = RouterWorld {
            router: Some(router),
            tx,
            clients,
            ended: vec![],
            outbox: VecDeque::new(),
            manual: false,
            next_uid: 0,
            tag: 0,
            model: Models::new(cfg),
            dead: None,
            turns: 0,
            pending_viols: vec![],
            prop: cfg.prop_static(),
            max_conn: cfg.max_conn,
            stale_disc: vec![],
            pick_mode: 0,
            pick_enabled: cfg.strategy == 1,
            trace_rx: std::env::var("VERIF_TRACE_RX").is_ok(),
            pad: cfg.pad,
        };
        for a in cfg.prelude.iter() {
            props::apply(&mut w, cfg, a);
            w.settle(true);
        }
        // violations raised by the prelude surface with the first explored action
        w
    }

    fn enabled(&self, cfg: &Cfg) -> Vec<(Act, u8)> {
        if self.dead.is_some() {
            return vec![];
        }
        props::enabled(self, cfg)
    }

    fn apply(&mut self, cfg: &Cfg, a: &Act, out: &mut Vec<Violation>) {
        if self.dead.is_some() {
            return;
        }
        // a late event of an ended link must not act on any connection established later
        let late = if let Act::Late { e } = a {
            self.ended
                .get(*e as usize)
                .map(|x| (x.name.clone(), x.id, x.pending.front().cloned()))
        } else {
            None
        };
        let before: Vec<bool> = self.model.clients.iter().map(|c| c.registered).collect();
        props::apply(self, cfg, a);
        if !self.manual {
            self.settle(true);
        }
        if self.pad > 0 {
            self.update_lag();
        }
        if let Some((name, id, Some(ev))) = late {
            if !self.manual {
                self.check_late_effect(&name, id, &ev, &before);
            }
        }
        self.resolve_alternatives();
        out.append(&mut self.pending_viols);
        self.model.take_violations(self.prop, out);
    }

    fn check(&self, cfg: &Cfg, out: &mut Vec<Violation>) {
        if self.dead.is_some() {
            return;
        }
        props::check_state(self, cfg, out);
    }

    fn fingerprint(&self) -> u128 {
        struct Both<'a>(&'a RouterWorld);
        impl Hash for Both<'_> {
            fn hash<H: Hasher>(&self, h: &mut H) {
                self.0.snapshot_hash(h);
                self.0.harness_hash(h);
                self.0.model.hash_state(h);
            }
        }
        fp128(&Both(self))
    }

    fn closure(mut self, cfg: &Cfg, out: &mut Vec<Violation>) -> u64 {
        if self.dead.is_some() {
            return 0;
        }
        props::closure(&mut self, cfg);
        self.resolve_alternatives();
        if cfg.prop == "C03" {
            self.probe();
        }
        out.append(&mut self.pending_viols);
        self.model.take_violations(self.prop, out);
        if out.is_empty() && self.dead.is_none() {
            props::check_closed(&self, cfg, out);
        }
        0
    }

    fn outcome(&self) -> u64 {
        self.model.outcome()
    }

    fn describe(&self) -> String {
        let mut s = String::new();
        for (i, c) in self.clients.iter().enumerate() {
            if let Some(l) = c.link.as_ref() {
                s += &format!(
                    "{}#{}(unacked={:?} wake={} obuf={}) ",
                    NAMES[i],
                    l.id,
                    c.unacked,
                    l.wake.len(),
                    l.obuf.lock().len()
                );
            }
        }
        s += &self.model.describe();
        s
    }
}

pub fn will_spec(will: u8, cfg: &Cfg) -> Option<bp::LastWill> {
    // will 0: none; otherwise topic index = (will-1) / 6, qos = ((will-1) / 2) % 3, retain = (will-1) % 2
    if will == 0 {
        return None;
    }
    let k = (will - 1) as usize;
    let topic = cfg.topics.get(k / 6).cloned().unwrap_or_else(|| "w".to_string());
    let qos = match (k / 2) % 3 {
        0 => bp::QoS::AtMostOnce,
        1 => bp::QoS::AtLeastOnce,
        _ => bp::QoS::ExactlyOnce,
    };
    Some(bp::LastWill {
        topic: topic.into(),
        message: format!("will-{will}").into(),
        qos,
        retain: k % 2 == 1,
    })
}

#[allow(dead_code)]
pub fn shadow_event(filter: &str) -> Event {
    Event::Shadow(ShadowRequest {
        filter: filter.to_string(),
    })
}

#[allow(dead_code)]
pub fn unused(_: Option<PendingLink>, _: Option<Props>) {}
