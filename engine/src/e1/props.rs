//! Per-property alphabets (which actions are enabled where), the generic execution of an
//! action, state invariants, the quiescence closure and the eventual oracles.
use super::{Act, ChanEv, Cfg, Ended, LateEv, RouterWorld, NAMES};
use crate::vcore::Violation;
use crate::wire::Tx;
use rumqttd::protocol as bp;
use rumqttd::verif::Event;
use std::collections::VecDeque;

fn live(w: &RouterWorld, c: u8) -> bool {
    w.clients[c as usize].link.is_some() && w.model.registered(c as usize)
}

pub fn next_pkid(w: &mut RouterWorld, ci: usize) -> u16 {
    let c = &mut w.clients[ci];
    c.next_pkid = if c.next_pkid == u16::MAX { 1 } else { c.next_pkid + 1 };
    c.next_pkid
}

fn qos_of(q: bp::QoS) -> u8 {
    q as u8
}

/// scenario-specific publish property sets (index 0 = none)
pub fn prop_table(k: u8) -> Option<crate::wire::Props> {
    use crate::wire::Props;
    if k == 0 {
        return None;
    }
    // bit i of (k-1) selects property i: an exhaustive subset enumeration for k in 1..=256
    let bits = (k as u16 - 1) as u8;
    let mut p = Props::default();
    if bits & 1 != 0 {
        p.pfi = Some(1);
    }
    if bits & 2 != 0 {
        p.expiry = Some(3600);
    }
    if bits & 4 != 0 {
        p.response_topic = Some("resp/t".into());
    }
    if bits & 8 != 0 {
        p.correlation = Some(vec![1, 2, 3]);
    }
    if bits & 16 != 0 {
        p.user = vec![("k".into(), "v".into()), ("k2".into(), "v2".into())];
    }
    if bits & 32 != 0 {
        p.content_type = Some("text/plain".into());
    }
    if bits & 64 != 0 {
        p.alias = Some(3);
    }
    Some(p)
}

pub fn end_link(w: &mut RouterWorld, ci: usize, events: Vec<LateEv>, auto: bool) {
    if let Some(l) = w.clients[ci].link.take() {
        let name = w.clients[ci].name.clone();
        w.clients[ci].unacked.clear();
        w.clients[ci].rels.clear();
        w.clients[ci].q2.clear();
        w.ended.push(Ended {
            name,
            ci,
            uid: l.uid,
            id: l.id,
            pending: VecDeque::from(events),
            auto,
            pushed: l.pushed,
        });
    }
}

/// Execute one action (no settling here; `World::apply` settles in automatic mode).
pub fn apply(w: &mut RouterWorld, cfg: &Cfg, a: &Act) {
    match a {
        Act::Connect { c, clean, will } => {
            let ci = *c as usize;
            let spec = super::will_spec(*will, cfg);
            if let Some(s) = spec.as_ref() {
                let name = NAMES[ci];
                w.model.register_will(
                    name,
                    String::from_utf8_lossy(&s.topic).to_string(),
                    s.message.to_vec(),
                    qos_of(s.qos),
                    s.retain,
                );
            } else {
                // a connection without a will leaves an earlier registration untouched in the
                // router only for takeovers, which C16 excludes; the model drops it
                w.model.forget_will(NAMES[ci]);
            }
            // variants 100 / 101: room for ten broker-side aliases; 102: for one only (two
            // topics compete for it)
            let alias_max = match (w.clients[ci].v5, cfg.variant) {
                (true, 102) => 1,
                (true, v) if v >= 100 => 10,
                _ => 0,
            };
            w.connect(ci, *clean, spec, alias_max);
        }
        Act::Sub { c, f, qos } => {
            let ci = *c as usize;
            let pkid = next_pkid(w, ci);
            let filters = vec![(cfg.filters[*f as usize].clone(), *qos)];
            // C20 variants 1 / 101: MQTT 5 subscribers use a subscription identifier
            // ... and in C08 (the identifier is part of the session that is resumed)
            let with_id = (cfg.prop == "C20" && cfg.variant % 100 == 1) || cfg.prop == "C08";
            let sub_id = (with_id && w.clients[ci].v5).then_some(7 + *f as usize);
            w.send(ci, vec![Tx::Subscribe { pkid, filters, sub_id }]);
        }
        Act::Sub2 { c, f1, f2, qos } => {
            let ci = *c as usize;
            let pkid = next_pkid(w, ci);
            let filters = vec![
                (cfg.filters[*f1 as usize].clone(), *qos),
                (cfg.filters[*f2 as usize].clone(), *qos),
            ];
            w.send(ci, vec![Tx::Subscribe { pkid, filters, sub_id: None }]);
        }
        Act::Unsub { c, f } => {
            let ci = *c as usize;
            let pkid = next_pkid(w, ci);
            w.send(ci, vec![Tx::Unsubscribe { pkid, filters: vec![cfg.filters[*f as usize].clone()] }]);
        }
        Act::Unsub2 { c, f1, f2 } => {
            let ci = *c as usize;
            let pkid = next_pkid(w, ci);
            w.send(
                ci,
                vec![Tx::Unsubscribe {
                    pkid,
                    filters: vec![cfg.filters[*f1 as usize].clone(), cfg.filters[*f2 as usize].clone()],
                }],
            );
        }
        Act::Pub { c, t, qos, retain, empty, props } => {
            let ci = *c as usize;
            let tx = make_publish(w, cfg, ci, *t, *qos, *retain, *empty, *props);
            w.send(ci, vec![tx]);
        }
        Act::Burst { c, t, qos, n } => {
            let ci = *c as usize;
            let mut v = Vec::with_capacity(*n as usize);
            for _ in 0..*n {
                v.push(make_publish(w, cfg, ci, *t, *qos, false, false, 0));
            }
            w.send(ci, v);
        }
        Act::RelProps { c } => {
            let ci = *c as usize;
            if w.clients[ci].q2.front().is_some_and(|e| e.1) {
                let (pkid, _) = w.clients[ci].q2.pop_front().unwrap();
                w.send(ci, vec![Tx::PubRelProps(pkid)]);
            }
        }
        Act::Rel { c } => {
            let ci = *c as usize;
            if let Some(pos) = w.clients[ci].q2.iter().position(|e| e.1) {
                if pos == 0 {
                    let (pkid, _) = w.clients[ci].q2.pop_front().unwrap();
                    w.send(ci, vec![Tx::PubRel(pkid)]);
                }
            }
        }
        Act::Ack { c } => {
            let ci = *c as usize;
            if let Some((pkid, q)) = w.clients[ci].unacked.pop_front() {
                let tx = if q == 1 { Tx::PubAck(pkid) } else { Tx::PubRec(pkid) };
                w.send(ci, vec![tx]);
            }
        }
        Act::Comp { c } => {
            let ci = *c as usize;
            if let Some(pkid) = w.clients[ci].rels.pop_front() {
                w.send(ci, vec![Tx::PubComp(pkid)]);
            }
        }
        Act::AckAll { c } => {
            let ci = *c as usize;
            ack_everything(w, ci);
        }
        Act::Ping { c } => w.send(*c as usize, vec![Tx::PingReq]),
        Act::DiscPkt { c } => w.send(*c as usize, vec![Tx::Disconnect]),
        Act::Drop { c } => {
            end_link(w, *c as usize, vec![LateEv::Disconnect, LateEv::Will], true);
            if w.manual {
                // the link task sends its last events at once: while the router is held they
                // queue up behind whatever else is on the channel and share its next turn
                w.deliver_auto_late();
            }
        }
        Act::DropLate { c } => {
            // C14: the ended link's Ready and DeviceData signals may be late as well
            let evs = if cfg.prop == "C14" {
                vec![LateEv::Ready, LateEv::Data, LateEv::Disconnect, LateEv::Will]
            } else {
                vec![LateEv::Disconnect, LateEv::Will]
            };
            end_link(w, *c as usize, evs, false)
        }
        Act::DiscThenDrop { c } => {
            w.send(*c as usize, vec![Tx::Disconnect]);
            end_link(w, *c as usize, vec![LateEv::Disconnect, LateEv::Will], false);
        }
        Act::Late { e } => {
            let i = *e as usize;
            if i < w.ended.len() {
                if let Some(ev) = w.ended[i].pending.pop_front() {
                    let (id, uid, ci, name) = (w.ended[i].id, w.ended[i].uid, w.ended[i].ci, w.ended[i].name.clone());
                    w.deliver_late(id, uid, ci, &name, ev);
                }
                w.ended.retain(|e| !e.pending.is_empty() || !e.pushed.is_empty());
            }
        }
        Act::Hold => w.manual = true,
        Act::Turn => {
            w.turn();
        }
        Act::Drain { c } => {
            let ci = *c as usize;
            w.drain_once(ci);
            let due = w.clients[ci].link.as_ref().is_some_and(|l| l.ready_due);
            if due {
                let (id, uid) = {
                    let l = w.clients[ci].link.as_mut().unwrap();
                    l.ready_due = false;
                    (l.id, l.uid)
                };
                w.send_event(id, Event::Ready, ChanEv::Ready(uid));
            }
        }
        Act::Settle => {
            w.manual = false;
        }
        Act::Bad { c, kind } => super::hostile::bad(w, cfg, *c as usize, *kind),
        Act::Batch { c, kind } => super::hostile::batch(w, cfg, *c as usize, *kind),
        Act::Pair { c, a, b } => super::hostile::pair(w, cfg, *c as usize, *a, *b),
        Act::Raw { id, kind } => super::hostile::raw(w, cfg, *id as usize, *kind),
        Act::Stall { c } => {
            if let Some(l) = w.clients[*c as usize].link.as_mut() {
                l.stalled = true;
            }
        }
        Act::Unstall { c } => {
            if let Some(l) = w.clients[*c as usize].link.as_mut() {
                l.stalled = false;
            }
        }
        Act::AckN { c, n } => {
            let ci = *c as usize;
            let mut v = vec![];
            for _ in 0..*n {
                if let Some((pkid, q)) = w.clients[ci].unacked.pop_front() {
                    v.push(if q == 1 { Tx::PubAck(pkid) } else { Tx::PubRec(pkid) });
                }
            }
            if !v.is_empty() {
                w.send(ci, v);
            }
        }
        Act::Pick { k } => {
            w.pick_mode = *k;
        }
        Act::AckNThen { c, n, then } => {
            let ci = *c as usize;
            let mut v = vec![];
            for _ in 0..*n {
                if let Some((pkid, q)) = w.clients[ci].unacked.pop_front() {
                    v.push(if q == 1 { Tx::PubAck(pkid) } else { Tx::PubRec(pkid) });
                }
            }
            match then {
                0 => v.push(Tx::PingReq),
                1 => {
                    let pkid = next_pkid(w, ci);
                    let f = cfg.filters.last().cloned().unwrap_or_else(|| "zz".into());
                    v.push(Tx::Subscribe { pkid, filters: vec![(f, 0)], sub_id: None });
                }
                _ => {
                    let p = make_publish(w, cfg, ci, 0, 1, false, false, 0);
                    v.push(p);
                }
            }
            w.send(ci, v);
        }
        Act::CompN { c, n } => {
            let ci = *c as usize;
            let mut v = vec![];
            for _ in 0..*n {
                if let Some(pkid) = w.clients[ci].rels.pop_front() {
                    v.push(Tx::PubComp(pkid));
                }
            }
            if !v.is_empty() {
                w.send(ci, v);
            }
        }
    }
}

#[allow(clippy::too_many_arguments)]
pub fn make_publish(w: &mut RouterWorld, cfg: &Cfg, ci: usize, t: u8, qos: u8, retain: bool, empty: bool, props: u8) -> Tx {
    let tag = w.fresh_tag();
    let pkid = if qos > 0 { next_pkid(w, ci) } else { 0 };
    if qos == 2 {
        w.clients[ci].q2.push_back((pkid, false));
    }
    // property code 255 (MQTT 5 publisher): topic alias 3 alone, with an empty topic name
    let alias_only = props == 255 && w.clients[ci].v5;
    Tx::Publish {
        topic: if alias_only { String::new() } else { cfg.topics[t as usize].clone() },
        qos,
        retain,
        dup: false,
        pkid,
        payload: RouterWorld::payload_for(tag, empty, w.pad),
        props: if alias_only {
            Some(crate::wire::Props { alias: Some(3), ..Default::default() })
        } else if w.clients[ci].v5 {
            prop_table(props)
        } else {
            None
        },
    }
}

/// every client acknowledges, in order, everything it has received; publishers release
pub fn ack_everything(w: &mut RouterWorld, ci: usize) -> bool {
    if w.clients[ci].link.is_none() {
        return false;
    }
    let mut v = vec![];
    while let Some((pkid, q)) = w.clients[ci].unacked.pop_front() {
        v.push(if q == 1 { Tx::PubAck(pkid) } else { Tx::PubRec(pkid) });
    }
    while let Some(pkid) = w.clients[ci].rels.pop_front() {
        v.push(Tx::PubComp(pkid));
    }
    while w.clients[ci].q2.front().is_some_and(|e| e.1) {
        let (pkid, _) = w.clients[ci].q2.pop_front().unwrap();
        v.push(Tx::PubRel(pkid));
    }
    if v.is_empty() {
        return false;
    }
    // one packet per notification keeps the order of requests and replies simple
    for tx in v {
        w.send(ci, vec![tx]);
    }
    true
}

/// "deliver everything, run the router, let every client drain and acknowledge in order,
/// repeat until nothing changes"
pub fn closure(w: &mut RouterWorld, _cfg: &Cfg) {
    w.manual = false;
    for c in w.clients.iter_mut() {
        if let Some(l) = c.link.as_mut() {
            l.stalled = false;
        }
    }
    for e in w.ended.iter_mut() {
        e.auto = true;
    }
    for _ in 0..2000 {
        w.settle(true);
        if w.dead.is_some() {
            return;
        }
        let mut any = false;
        for ci in 0..w.clients.len() {
            if ack_everything(w, ci) {
                any = true;
            }
        }
        if !any {
            return;
        }
    }
    let p = w.prop;
    w.pending_viols.push(Violation::new(p, "livelock", "closure did not reach a fixpoint in 2000 rounds"));
}

pub fn check_closed(w: &RouterWorld, _cfg: &Cfg, out: &mut Vec<Violation>) {
    let mut v = vec![];
    w.model.check_complete(&mut v);
    for (c, d) in v {
        out.push(Violation::new(w.prop, c, d));
    }
    check_registered(w, out);
}

/// the model and the router agree on who is connected
fn check_registered(w: &RouterWorld, out: &mut Vec<Violation>) {
    #[cfg(feature = "snapshot")]
    if let Some(r) = w.router.as_ref() {
        if !w.outbox.is_empty() {
            return;
        }
        let snap = r.verif_snapshot();
        let mut have: Vec<&str> = snap.connection_map.iter().map(|(k, _)| k.as_str()).collect();
        have.sort();
        let mut want: Vec<&str> = w
            .model
            .clients
            .iter()
            .enumerate()
            .filter(|(_, c)| c.registered)
            .map(|(i, _)| NAMES[i])
            .collect();
        want.sort();
        if have.len() > w.max_conn {
            out.push(Violation::new(
                w.prop,
                "max_connections_exceeded",
                format!("{} live connections, configured maximum {}", have.len(), w.max_conn),
            ));
        }
        if have != want {
            out.push(Violation::new(
                w.prop,
                "connection_set",
                format!("clients registered in the router {have:?}, clients that should be connected {want:?}"),
            ));
        }
        structural(&snap, w.prop, out);
    }
}

#[cfg(feature = "snapshot")]
fn structural(s: &rumqttd::verif::Snapshot, prop: &'static str, out: &mut Vec<Violation>) {
    let k = &s.slab_keys;
    if !(k[0] == k[1] && k[1] == k[2] && k[2] == k[3] && k[3] == k[4]) {
        out.push(Violation::new(prop, "slab_misaligned", format!("per-connection tables have different keys: {k:?}")));
    }
    let mut ids: Vec<usize> = s.connection_map.iter().map(|(_, v)| *v).collect();
    ids.sort();
    let mut dedup = ids.clone();
    dedup.dedup();
    if ids != dedup || ids != k[0] {
        out.push(Violation::new(
            prop,
            "connection_map_not_bijective",
            format!("connection_map {:?} vs live connection ids {:?}", s.connection_map, k[0]),
        ));
    }
    for c in s.connections.iter() {
        if c.inflight.len() > 100 {
            out.push(Violation::new(prop, "inflight_over_100", format!("{} has {} inflight", c.client_id, c.inflight.len())));
        }
    }
}

pub fn check_state(w: &RouterWorld, _cfg: &Cfg, out: &mut Vec<Violation>) {
    if !w.manual {
        check_registered(w, out);
    }
}

// ---------------------------------------------------------------------------------------
// alphabets
// ---------------------------------------------------------------------------------------

fn manual_actions(w: &RouterWorld, cfg: &Cfg, v: &mut Vec<(Act, u8)>) {
    if !cfg.manual {
        return;
    }
    if !w.manual {
        v.push((Act::Hold, 1));
        return;
    }
    v.push((Act::Settle, 0));
    if !w.outbox.is_empty() {
        v.push((Act::Turn, 0));
    }
    for (i, c) in w.clients.iter().enumerate() {
        if let Some(l) = c.link.as_ref() {
            if !l.wake.is_empty() {
                v.push((Act::Drain { c: i as u8 }, 0));
            }
        }
    }
}

fn ack_actions(w: &RouterWorld, cs: &[u8], v: &mut Vec<(Act, u8)>) {
    for &c in cs {
        if !live(w, c) {
            continue;
        }
        let cl = &w.clients[c as usize];
        if !cl.unacked.is_empty() {
            v.push((Act::Ack { c }, 0));
        }
        if !cl.rels.is_empty() {
            v.push((Act::Comp { c }, 0));
        }
    }
}

fn rel_actions(w: &RouterWorld, cs: &[u8], v: &mut Vec<(Act, u8)>) {
    for &c in cs {
        if live(w, c) && w.clients[c as usize].q2.front().is_some_and(|e| e.1) {
            v.push((Act::Rel { c }, 0));
            if w.clients[c as usize].v5 && w.prop == "C06" {
                v.push((Act::RelProps { c }, 0));
            }
        }
    }
}

fn active_sub(w: &RouterWorld, c: u8, filter: &str) -> bool {
    w.model.clients[c as usize].subs.iter().any(|s| s.active && s.filter == filter)
}

fn active_subs(w: &RouterWorld, c: u8) -> usize {
    w.model.clients[c as usize].subs.iter().filter(|s| s.active).count()
}

pub fn enabled(w: &RouterWorld, cfg: &Cfg) -> Vec<(Act, u8)> {
    let mut v = vec![];
    match cfg.prop.as_str() {
        "C01" => enabled_c01(w, cfg, &mut v),
        "C06" => enabled_c06(w, cfg, &mut v),
        "C08" => enabled_c08(w, cfg, &mut v),
        "C09" => enabled_c09(w, cfg, &mut v),
        "C14" => enabled_c14(w, cfg, &mut v),
        "C15" => enabled_c15(w, cfg, &mut v),
        "C16" => enabled_c16(w, cfg, &mut v),
        "C17" => enabled_c17(w, cfg, &mut v),
        "C03" => enabled_c03(w, cfg, &mut v),
        "C20" => enabled_c20(w, cfg, &mut v),
        "C19" => enabled_c19(w, cfg, &mut v),
        "C12" => enabled_c12(w, cfg, &mut v),
        _ => {}
    }
    manual_actions(w, cfg, &mut v);
    v
}

fn can_connect(w: &RouterWorld, c: u8) -> bool {
    w.clients[c as usize].link.is_none() && w.outbox.is_empty()
}

/// C06: c0, c1 issue requests of every kind; c2 is a QoS1 subscriber of everything
fn enabled_c06(w: &RouterWorld, cfg: &Cfg, v: &mut Vec<(Act, u8)>) {
    let reqs = [0u8, 1u8];
    for &c in reqs.iter() {
        if !live(w, c) {
            if can_connect(w, c) && cfg.variant != 3 {
                v.push((Act::Connect { c, clean: true, will: 0 }, 0));
            }
            continue;
        }
        for q in [1u8, 2u8] {
            v.push((Act::Pub { c, t: 0, qos: q, retain: false, empty: false, props: 0 }, 0));
        }
        v.push((Act::Ping { c }, 0));
        if c == 0 && matches!(cfg.variant, 1 | 2 | 4) && w.model.accepted.len() < 700 {
            // many requests of the paused / backlogged subscriber itself in one batch
            for n in [60u16, 250] {
                v.push((Act::Burst { c, t: 0, qos: 1, n }, 0));
            }
        }
        if c == 0 && matches!(cfg.variant, 2 | 4) {
            if let Some(l) = w.clients[0].link.as_ref() {
                if l.stalled {
                    v.push((Act::Unstall { c }, 0));
                }
            }
        }
        for f in 0..cfg.filters.len() as u8 {
            // subscribed or not: an UNSUBSCRIBE is owed exactly one UNSUBACK either way
            v.push((Act::Unsub { c, f }, 0));
            if !active_sub(w, c, &cfg.filters[f as usize]) {
                v.push((Act::Sub { c, f, qos: (f % 3) }, 0));
            }
        }
        if cfg.filters.len() >= 2 {
            v.push((Act::Sub2 { c, f1: 0, f2: 1, qos: 1 }, 0));
            v.push((Act::Unsub2 { c, f1: 0, f2: 1 }, 0));
            // the same filter twice in one SUBSCRIBE / UNSUBSCRIBE: one code per occurrence
            v.push((Act::Sub2 { c, f1: 1, f2: 1, qos: 2 }, 0));
            v.push((Act::Unsub2 { c, f1: 1, f2: 1 }, 0));
        }
        if !w.manual {
            for kind in 0..super::hostile::BATCH_KINDS {
                v.push((Act::Batch { c, kind }, 0));
            }
            // every two-packet batch over {publish QoS 0/1/2, PINGREQ, SUBSCRIBE, UNSUBSCRIBE}
            // in which a reply is owed (c1: a requester that nothing else wakes up)
            if c == 1 {
                for a in 0..super::hostile::PAIR_KINDS {
                    for b in 0..super::hostile::PAIR_KINDS {
                        if (a, b) != (0, 0) {
                            v.push((Act::Pair { c, a, b }, 1));
                        }
                    }
                }
            }
        }
    }
    rel_actions(w, &reqs, v);
    ack_actions(w, &[0, 1, 2], v);
}

/// C08: c2 is the persistent subscriber, c0 publishes
fn enabled_c08(w: &RouterWorld, cfg: &Cfg, v: &mut Vec<(Act, u8)>) {
    let s = 2u8;
    let p = 0u8;
    if live(w, p) {
        for t in 0..cfg.topics.len() as u8 {
            v.push((Act::Pub { c: p, t, qos: 1, retain: false, empty: false, props: 0 }, 0));
        }
        if cfg.variant == 1 {
            v.push((Act::Pub { c: p, t: 0, qos: 1, retain: true, empty: false, props: 0 }, 0));
        }
        if cfg.variant == 3 && w.model.accepted.len() < 300 {
            // more than a window full: the session ends with unacknowledged messages and
            // a backlog that was never forwarded
            v.push((Act::Burst { c: p, t: 0, qos: 1, n: 120 }, 0));
            v.push((Act::Pub { c: p, t: 0, qos: 0, retain: false, empty: false, props: 0 }, 0));
            v.push((Act::Pub { c: p, t: 0, qos: 2, retain: false, empty: false, props: 0 }, 0));
        }
    }
    rel_actions(w, &[p], v);
    if live(w, s) {
        let qs: &[u8] = match cfg.variant {
            0 | 3 => &[1, 2],
            1 => &[1],
            _ => &[0, 1],
        };
        for f in 0..cfg.filters.len() as u8 {
            let fs = &cfg.filters[f as usize];
            if active_sub(w, s, fs) {
                v.push((Act::Unsub { c: s, f }, 0));
            } else if !w.model.clients[s as usize].subs.iter().any(|x| x.filter == *fs) || w.model.clients[s as usize].clean {
                // (a filter is subscribed at most once per persistent session: what a stale
                // inflight entry of an earlier subscription does to a later one is not stated)
                // distinct QoS per filter keeps the attribution of forwards unambiguous
                let q = qs[f as usize % qs.len()];
                v.push((Act::Sub { c: s, f, qos: q }, 0));
            }
        }
        ack_actions(w, &[s], v);
        if !w.manual {
            v.push((Act::DiscPkt { c: s }, 0));
            v.push((Act::Drop { c: s }, 0));
            v.push((Act::Bad { c: s, kind: 0 }, 0));
            // takeover by a second connection under the same id
            if w.outbox.is_empty() {
                v.push((Act::Connect { c: s, clean: false, will: 0 }, 0));
                if cfg.variant == 3 {
                    // ... or by a connection that asks for a clean session
                    v.push((Act::Connect { c: s, clean: true, will: 0 }, 0));
                }
            }
        }
    } else if can_connect(w, s) {
        v.push((Act::Connect { c: s, clean: false, will: 0 }, 0));
        v.push((Act::Connect { c: s, clean: true, will: 0 }, 0));
    }
}

/// C09: c0 publishes backlogs, c2 subscribes at QoS1/2 and paces its acknowledgements
fn enabled_c09(w: &RouterWorld, cfg: &Cfg, v: &mut Vec<(Act, u8)>) {
    let s = 2u8;
    let p = 0u8;
    let bursts: &[u16] = match cfg.variant {
        0 => &[3, 100, 101],
        1 => &[99, 150],
        _ => &[200, 250],
    };
    if live(w, p) && w.model.accepted.len() < 520 {
        for t in 0..cfg.topics.len() as u8 {
            for &n in bursts {
                v.push((Act::Burst { c: p, t, qos: 0, n }, 0));
            }
            v.push((Act::Pub { c: p, t, qos: 0, retain: false, empty: false, props: 0 }, 0));
        }
    }
    if live(w, s) {
        for f in 0..cfg.filters.len() as u8 {
            if !active_sub(w, s, &cfg.filters[f as usize]) {
                // variant 2: a QoS 1 and a QoS 0 subscription, so that a stalled link collects
                // more than the window (buffer-full back-pressure with acks outstanding)
                let q = match cfg.variant {
                    1 => 2,
                    2 => 1 - (f % 2),
                    _ => 1 + (f % 2),
                };
                v.push((Act::Sub { c: s, f, qos: q }, 0));
            }
        }
        let cl = &w.clients[s as usize];
        if !cl.unacked.is_empty() {
            v.push((Act::Ack { c: s }, 0));
            if cl.unacked.len() >= 2 {
                v.push((Act::AckN { c: s, n: 50 }, 0));
                v.push((Act::AckN { c: s, n: 100 }, 0));
                // the acknowledgements share their batch with a request that wants a reply
                v.push((Act::AckNThen { c: s, n: 100, then: 0 }, 0));
                if cfg.variant == 0 {
                    v.push((Act::AckNThen { c: s, n: 100, then: 2 }, 0));
                }
                if !w.manual {
                    v.push((Act::Bad { c: s, kind: 4 }, 0));
                }
            }
            if !w.manual && cfg.variant == 0 {
                // the wrong kind of acknowledgement for the oldest forward
                v.push((Act::Bad { c: s, kind: 20 }, 0));
            }
        }
        if !cl.rels.is_empty() {
            v.push((Act::Comp { c: s }, 0));
            if cl.rels.len() >= 2 {
                v.push((Act::CompN { c: s, n: 100 }, 0));
            }
        }
        if !w.manual {
            // an acknowledgement of each kind that the broker did not solicit
            for kind in [0u8, 1, 2] {
                v.push((Act::Bad { c: s, kind }, 0));
            }
        }
        let stalled = cl.link.as_ref().is_some_and(|l| l.stalled);
        if cfg.variant == 2 {
            if stalled {
                v.push((Act::Unstall { c: s }, 0));
            } else {
                v.push((Act::Stall { c: s }, 1));
            }
        }
    } else if can_connect(w, s) {
        v.push((Act::Connect { c: s, clean: true, will: 0 }, 0));
    }
}

/// C14: well-behaved pair c0 -> c1 on topic 0; c2 misbehaves; c3 is a newcomer
fn enabled_c14(w: &RouterWorld, cfg: &Cfg, v: &mut Vec<(Act, u8)>) {
    let (p, s, m, n) = (0u8, 1u8, 2u8, 3u8);
    if live(w, p) && w.model.accepted.len() < 300 {
        v.push((Act::Pub { c: p, t: 0, qos: 1, retain: false, empty: false, props: 0 }, 0));
        if cfg.topics.len() > 1 && cfg.variant == 0 {
            // traffic for the misbehaving client's own (shared) subscription
            v.push((Act::Pub { c: p, t: 1, qos: 0, retain: false, empty: false, props: 0 }, 0));
        }
    }
    if live(w, m) && cfg.filters.len() > 1 && cfg.variant == 0 && !active_sub(w, m, &cfg.filters[1]) {
        v.push((Act::Sub { c: m, f: 1, qos: 0 }, 0));
    }
    if live(w, s) && !w.clients[s as usize].unacked.is_empty() {
        v.push((Act::AckAll { c: s }, 0));
    }
    if live(w, m) {
        let kinds: &[u8] = match cfg.variant {
            0 => &[0, 3, 5, 6, 16],
            _ => &[0],
        };
        if !w.manual {
            for &k in kinds {
                v.push((Act::Bad { c: m, kind: k }, 0));
            }
            if cfg.variant == 0 {
                // the packet that ends the connection is followed by more packets in its
                // batch: they must not be acted on, under anybody's name
                for kind in [2u8, 3, 8] {
                    v.push((Act::Batch { c: m, kind }, 0));
                }
                // every other misbehaviour of the menu, once per history
                for k in 0..super::hostile::BAD_KINDS {
                    if !kinds.contains(&k) {
                        v.push((Act::Bad { c: m, kind: k }, 1));
                    }
                }
                for kind in 0..super::hostile::BATCH_KINDS {
                    if ![2u8, 3, 8].contains(&kind) {
                        v.push((Act::Batch { c: m, kind }, 1));
                    }
                }
            }
            v.push((Act::DiscPkt { c: m }, 0));
            v.push((Act::Drop { c: m }, 0));
            v.push((Act::DropLate { c: m }, 0));
            v.push((Act::DiscThenDrop { c: m }, 0));
            if w.outbox.is_empty() {
                v.push((Act::Connect { c: m, clean: cfg.variant != 1, will: 0 }, 0));
            }
        }
        if cfg.variant == 2 {
            // slow consumer: subscribed to the same topic but never drains
            if !active_sub(w, m, &cfg.filters[0]) {
                v.push((Act::Sub { c: m, f: 0, qos: 1 }, 0));
            }
            let stalled = w.clients[m as usize].link.as_ref().is_some_and(|l| l.stalled);
            if !stalled {
                v.push((Act::Stall { c: m }, 0));
            }
            if w.model.accepted.len() < 300 {
                v.push((Act::Burst { c: p, t: 0, qos: 1, n: 120 }, 0));
            }
        }
    } else if can_connect(w, m) {
        v.push((Act::Connect { c: m, clean: cfg.variant != 1, will: 0 }, 0));
    }
    if cfg.variant == 3 {
        // two offenders that share the victim's filter; what they do may fall into the same
        // router turn as the traffic of the others (also while the router is held)
        for o in [m, n] {
            if live(w, o) {
                v.push((Act::Drop { c: o }, 0));
                v.push((Act::Batch { c: o, kind: 8 }, 0));
                // a publish on the shared filter and the offender's own UNSUBSCRIBE in one batch
                v.push((Act::Batch { c: o, kind: 5 }, 0));
                if w.manual {
                    v.push((Act::Bad { c: o, kind: 0 }, 0));
                }
            }
        }
        if live(w, s) {
            v.push((Act::Pub { c: s, t: 0, qos: 1, retain: false, empty: false, props: 0 }, 0));
        }
    }
    if can_connect(w, n) {
        v.push((Act::Connect { c: n, clean: true, will: 0 }, 0));
    }
    for (i, e) in w.ended.iter().enumerate() {
        if !e.auto && !e.pending.is_empty() && i < 4 {
            v.push((Act::Late { e: i as u8 }, 0));
        }
    }
}

/// C15: c0 publishes retained / non-retained / empty; c2, c3 subscribe
fn enabled_c15(w: &RouterWorld, cfg: &Cfg, v: &mut Vec<(Act, u8)>) {
    let p = 0u8;
    if live(w, p) {
        for t in 0..cfg.topics.len() as u8 {
            for (retain, empty) in [(true, false), (true, true), (false, false), (false, true)] {
                // variant 2: retained QoS 2 publishes (stored when released), MQTT 5
                // publisher whose retained messages carry properties
                let qos = cfg.variant.min(2);
                let props = if cfg.variant == 2 && !empty { 3 } else { 0 };
                v.push((Act::Pub { c: p, t, qos, retain, empty, props }, 0));
            }
        }
    }
    rel_actions(w, &[p], v);
    if cfg.variant == 3 && !w.manual {
        // a will with the retain flag: stored like a retained publish when it fires, and
        // its copies towards the subscribers of that moment are not flagged
        if live(w, 1) {
            v.push((Act::Drop { c: 1 }, 0));
            v.push((Act::DiscPkt { c: 1 }, 0));
        } else if can_connect(w, 1) && !w.ended.iter().any(|e| e.ci == 1 && !e.pending.is_empty()) {
            for will in [2u8, 4] {
                v.push((Act::Connect { c: 1, clean: true, will }, 0));
            }
        }
    }
    for c in [2u8, 3u8] {
        if !live(w, c) {
            continue;
        }
        for f in 0..cfg.filters.len() as u8 {
            let q = if cfg.variant >= 1 { 1 + (f % 2) } else { f % 2 };
            // repeated subscriptions are part of the alphabet (no replay owed)
            v.push((Act::Sub { c, f, qos: q }, 0));
            if active_sub(w, c, &cfg.filters[f as usize]) {
                v.push((Act::Unsub { c, f }, 0));
            }
        }
        if cfg.variant == 1 && cfg.filters.len() >= 3 && c == 2 {
            // one SUBSCRIBE naming two filters: each new one is owed its own replay
            v.push((Act::Sub2 { c, f1: 0, f2: 1, qos: 1 }, 0));
            v.push((Act::Sub2 { c, f1: 1, f2: 2, qos: 2 }, 0));
        }
    }
    ack_actions(w, &[2, 3], v);
}

/// C16: c0 has a will, c1 has none; c2 subscribes to the will topic; c3 to everything
fn enabled_c16(w: &RouterWorld, cfg: &Cfg, v: &mut Vec<(Act, u8)>) {
    let wills: &[u8] = match cfg.variant {
        0 => &[1, 2, 3],
        1 => &[4, 5, 6],
        // (8: a retained will on the second topic, matched by the wildcard subscription only)
        _ => &[1, 4, 8],
    };
    for c in [0u8, 1u8] {
        if live(w, c) {
            v.push((Act::Pub { c, t: 1, qos: 1, retain: false, empty: false, props: 0 }, 0));
            if !w.manual {
                v.push((Act::DiscPkt { c }, 0));
                v.push((Act::Drop { c }, 0));
                v.push((Act::Bad { c, kind: 0 }, 0));
                v.push((Act::Bad { c, kind: 16 }, 0));
                v.push((Act::DropLate { c }, 0));
                // DISCONNECT sharing a batch with other packets
                for kind in [3u8, 7, 8] {
                    v.push((Act::Batch { c, kind }, 0));
                }
            }
        } else if can_connect(w, c) && !w.ended.iter().any(|e| e.ci == c as usize) {
            if c == 0 {
                for &k in wills {
                    v.push((Act::Connect { c, clean: true, will: k }, 0));
                }
                if cfg.variant == 2 {
                    // a will owner with a persistent session
                    v.push((Act::Connect { c, clean: false, will: 1 }, 0));
                }
                if w.model.clients[0].ever_connected {
                    // the same client id again, this time without a will
                    v.push((Act::Connect { c, clean: true, will: 0 }, 0));
                }
            } else {
                v.push((Act::Connect { c, clean: true, will: 0 }, 0));
            }
        }
    }
    for c in [2u8, 3u8] {
        if !live(w, c) {
            continue;
        }
        let f = c - 2;
        if (f as usize) < cfg.filters.len() {
            if active_sub(w, c, &cfg.filters[f as usize]) {
                v.push((Act::Unsub { c, f }, 0));
            } else {
                v.push((Act::Sub { c, f, qos: 1 }, 0));
            }
        }
    }
    ack_actions(w, &[2, 3], v);
    for (i, e) in w.ended.iter().enumerate() {
        if !e.auto && !e.pending.is_empty() && i < 4 {
            v.push((Act::Late { e: i as u8 }, 0));
        }
    }
}

/// C17: c0 publishes; c1, c2, c3 join and leave the group; filter 0 is the shared one,
/// filter 1 an unrelated plain filter, filter 2 (if any) a second filter of the same group
fn enabled_c17(w: &RouterWorld, cfg: &Cfg, v: &mut Vec<(Act, u8)>) {
    let p = 0u8;
    if live(w, p) && w.model.accepted.len() < 450 {
        let qs: &[u8] = if cfg.variant == 1 { &[1] } else { &[0, 1] };
        for &q in qs {
            v.push((Act::Pub { c: p, t: 0, qos: q, retain: false, empty: false, props: 0 }, 0));
        }
        v.push((Act::Burst { c: p, t: 0, qos: 0, n: 3 }, 0));
        for t in 1..cfg.topics.len() as u8 {
            v.push((Act::Pub { c: p, t, qos: 1, retain: false, empty: false, props: 0 }, 0));
        }
        if cfg.variant == 2 {
            v.push((Act::Burst { c: p, t: 0, qos: 0, n: 220 }, 0));
        }
    }
    if cfg.strategy == 1 {
        // what the random strategy draws next is the environment's choice
        for k in 0..3u8 {
            if k != w.pick_mode {
                v.push((Act::Pick { k }, 0));
            }
        }
    }
    let members: &[u8] = if matches!(cfg.variant, 2 | 4) { &[1, 2] } else { &[1, 2, 3] };
    for &c in members {
        if live(w, c) {
            let q = match cfg.variant {
                1 | 4 => 1,
                5 => 2,
                _ => c % 2,
            };
            // joining twice (a plain re-subscribe) is legal
            v.push((Act::Sub { c, f: 0, qos: q }, 0));
            if active_sub(w, c, &cfg.filters[0]) {
                v.push((Act::Unsub { c, f: 0 }, 0));
            }
            if cfg.filters.len() > 1 {
                if active_sub(w, c, &cfg.filters[1]) {
                    v.push((Act::Unsub { c, f: 1 }, 0));
                } else {
                    v.push((Act::Sub { c, f: 1, qos: 0 }, 0));
                }
            }
            if cfg.filters.len() > 2 {
                // a second filter under the same share name: an independent group
                if active_sub(w, c, &cfg.filters[2]) {
                    v.push((Act::Unsub { c, f: 2 }, 0));
                } else {
                    v.push((Act::Sub { c, f: 2, qos: q }, 0));
                }
            }
            if !w.manual {
                v.push((Act::DiscPkt { c }, 0));
                if matches!(cfg.variant, 4 | 5) {
                    v.push((Act::Drop { c }, 0));
                }
            }
            if cfg.variant == 2 {
                let stalled = w.clients[c as usize].link.as_ref().is_some_and(|l| l.stalled);
                if !stalled {
                    v.push((Act::Stall { c }, 0));
                } else {
                    v.push((Act::Unstall { c }, 0));
                }
            }
        } else if can_connect(w, c) {
            // variant 4: member c1 keeps a persistent session
            v.push((Act::Connect { c, clean: !(cfg.variant == 4 && c == 1), will: 0 }, 0));
        }
    }
    ack_actions(w, members, v);
}

/// C03: hostile input from c0..c2, raw events for stale ids, takeover, persistent sessions,
/// shared subscriptions; c3/c4 are reserved for the liveness probe
fn enabled_c03(w: &RouterWorld, cfg: &Cfg, v: &mut Vec<(Act, u8)>) {
    let cs: &[u8] = &[0, 1, 2];
    for &c in cs {
        if live(w, c) {
            if !w.manual {
                let kinds: Vec<u8> = match cfg.variant {
                    0 => (0..8).collect(),
                    1 => (8..super::hostile::BAD_KINDS).collect(),
                    _ => vec![0, 3, 16],
                };
                for k in kinds {
                    v.push((Act::Bad { c, kind: k }, 0));
                }
                v.push((Act::DiscPkt { c }, 0));
                v.push((Act::Drop { c }, 0));
                if w.outbox.is_empty() {
                    v.push((Act::Connect { c, clean: c % 2 == 0, will: 0 }, 0));
                }
                // batches in which a closing packet follows (or precedes) other packets
                for kind in [2u8, 3, 6, 7] {
                    v.push((Act::Batch { c, kind }, 0));
                }
            }
            for f in 0..cfg.filters.len() as u8 {
                if !active_sub(w, c, &cfg.filters[f as usize]) {
                    v.push((Act::Sub { c, f, qos: 1 }, 0));
                } else {
                    v.push((Act::Unsub { c, f }, 0));
                }
            }
            for t in 0..cfg.topics.len() as u8 {
                v.push((Act::Pub { c, t, qos: 1, retain: false, empty: false, props: 0 }, 0));
            }
        } else if can_connect(w, c) {
            v.push((Act::Connect { c, clean: c % 2 == 0, will: if c == 0 { 1 } else { 0 } }, 0));
        }
    }
    ack_actions(w, cs, v);
    if cfg.variant == 2 && !w.manual {
        // stale events for ids no live link owns
        for id in 0..4u8 {
            let owned = w.clients.iter().any(|c| c.link.as_ref().is_some_and(|l| l.id == id as usize));
            if owned {
                // a shadow request and the metrics / alerts ticks do not belong to a link
                for kind in [5u8, 6, 7] {
                    v.push((Act::Raw { id, kind }, 0));
                }
                continue;
            }
            for kind in 0..super::hostile::RAW_KINDS {
                v.push((Act::Raw { id, kind }, 0));
            }
        }
    }
}

/// C20: c0 publishes (v5 or v4 per configuration), c2 and c3 subscribe (one per version)
fn enabled_c20(w: &RouterWorld, cfg: &Cfg, v: &mut Vec<(Act, u8)>) {
    let p = 0u8;
    if live(w, p) {
        let max_props: u16 = if w.clients[0].v5 { 128 } else { 0 };
        for q in 0..3u8 {
            if cfg.variant <= 1 {
                // every subset of the properties once (first publish), a few afterwards
                let ks: Vec<u16> = if w.model.accepted.is_empty() && q == 1 {
                    (0..=max_props).collect()
                } else {
                    vec![0, max_props.min(64)]
                };
                for k in ks {
                    v.push((Act::Pub { c: p, t: 0, qos: q, retain: false, empty: false, props: k as u8 }, 0));
                }
            } else {
                for t in 0..cfg.topics.len() as u8 {
                    for k in [0u8, 2, 64, 65, 128] {
                        if t > 0 && k != 0 && k != 65 {
                            continue;
                        }
                        v.push((Act::Pub { c: p, t, qos: q, retain: q == 1, empty: false, props: k }, 0));
                    }
                }
                if w.clients[0].v5 {
                    // alias 3 alone with an empty topic name
                    v.push((Act::Pub { c: p, t: 0, qos: q, retain: false, empty: false, props: 255 }, 0));
                }
            }
        }
    }
    rel_actions(w, &[p], v);
    for c in [2u8, 3u8] {
        if live(w, c) && !active_sub(w, c, &cfg.filters[0]) {
            for q in 0..3u8 {
                v.push((Act::Sub { c, f: 0, qos: q }, 0));
            }
        }
        if live(w, c) && !w.manual && cfg.variant <= 1 {
            // what the router sends a client of either version when it refuses or closes
            // (acknowledgements with reason codes, DISCONNECT notifications) has to be
            // encodable for that version too: one misbehaviour per history
            for kind in [0u8, 3, 5, 17, 18] {
                v.push((Act::Bad { c, kind }, 1));
            }
            v.push((Act::Unsub { c, f: 0 }, 1));
        }
    }
    ack_actions(w, &[2, 3], v);
}

/// C12 (broker routing): which filters a topic's publishes are appended to is decided by the
/// broker's `matches()` through `DataLog::matches`, a cache per topic that is filled on the
/// first publish and patched on every new filter. c0 publishes on every topic, c2 subscribes
/// the filter under test, c3 subscribes `#`-like filter 1 — in every order.
fn enabled_c12(w: &RouterWorld, cfg: &Cfg, v: &mut Vec<(Act, u8)>) {
    if live(w, 0) && w.model.accepted.len() < 12 {
        for t in 0..cfg.topics.len() as u8 {
            v.push((Act::Pub { c: 0, t, qos: 0, retain: false, empty: false, props: 0 }, 0));
        }
    }
    for (c, f) in [(2u8, 0u8), (3u8, 1u8)] {
        if live(w, c) && (f as usize) < cfg.filters.len() {
            if active_sub(w, c, &cfg.filters[f as usize]) {
                v.push((Act::Unsub { c, f }, 0));
            } else {
                v.push((Act::Sub { c, f, qos: 0 }, 0));
            }
        }
    }
}

/// C19 (router part): connect / disconnect / takeover histories against small limits
fn enabled_c19(w: &RouterWorld, _cfg: &Cfg, v: &mut Vec<(Act, u8)>) {
    for c in 0..4u8 {
        if live(w, c) {
            if !w.manual {
                v.push((Act::DiscPkt { c }, 0));
                v.push((Act::Drop { c }, 0));
                if w.outbox.is_empty() {
                    v.push((Act::Connect { c, clean: true, will: 0 }, 0));
                }
            }
        } else if can_connect(w, c) {
            v.push((Act::Connect { c, clean: c % 2 == 0, will: 0 }, 0));
        }
    }
}

/// C01: publishers c0,c1; subscribers c2,c3 (all connected by the prelude)
fn enabled_c01(w: &RouterWorld, cfg: &Cfg, v: &mut Vec<(Act, u8)>) {
    let (sub_qos, pub_qos): (&[u8], &[u8]) = match cfg.variant {
        0 => (&[0, 1], &[0, 1]),
        1 => (&[1, 2], &[1, 2]),
        // tiny segments (retention proviso): subscribers may stall and fall behind
        3 => (&[0, 1], &[0]),
        // bursts larger than the outgoing batch and the inflight window
        4 => (&[0, 1], &[1]),
        _ => (&[0, 2], &[0, 1, 2]),
    };
    if cfg.variant == 4 && live(w, 0) && w.model.accepted.len() < 400 {
        for n in [12u16, 130] {
            v.push((Act::Burst { c: 0, t: 0, qos: 1, n }, 0));
        }
    }
    if cfg.variant == 3 {
        for c in [2u8, 3u8] {
            if let Some(l) = w.clients[c as usize].link.as_ref() {
                if l.stalled {
                    v.push((Act::Unstall { c }, 0));
                } else if active_subs(w, c) > 0 {
                    v.push((Act::Stall { c }, 0));
                }
            }
        }
    }
    let subs = [2u8, 3u8];
    let pubs = [0u8, 1u8];
    for &c in pubs.iter() {
        if !live(w, c) {
            continue;
        }
        for t in 0..cfg.topics.len() as u8 {
            for &q in pub_qos {
                v.push((Act::Pub { c, t, qos: q, retain: false, empty: false, props: 0 }, 0));
            }
        }
    }
    rel_actions(w, &pubs, v);
    for &c in subs.iter() {
        if !live(w, c) {
            if w.clients[c as usize].link.is_none() && w.outbox.is_empty() {
                v.push((Act::Connect { c, clean: true, will: 0 }, 0));
            }
            continue;
        }
        for f in 0..cfg.filters.len() as u8 {
            let fs = &cfg.filters[f as usize];
            if active_sub(w, c, fs) {
                v.push((Act::Unsub { c, f }, 0));
                if f == 0 && cfg.variant < 2 {
                    // publish on the own subscription and unsubscribe, one batch
                    v.push((Act::Batch { c, kind: 5 }, 0));
                    // the same filter again with the other QoS: the SUBACK grants it
                    let cur = w.model.clients[c as usize].subs.iter().find(|s| s.active && s.filter == *fs).map(|s| s.qos);
                    for &q in sub_qos {
                        if Some(q) != cur {
                            v.push((Act::Sub { c, f, qos: q }, 0));
                        }
                    }
                }
            } else if active_subs(w, c) < if cfg.variant == 4 { 3 } else { 2 } {
                for &q in sub_qos {
                    v.push((Act::Sub { c, f, qos: q }, 0));
                }
            }
        }
        if cfg.variant == 2 && !w.manual {
            v.push((Act::DiscPkt { c }, 0));
        }
    }
    ack_actions(w, &subs, v);
}
