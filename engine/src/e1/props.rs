//! Per-property alphabets (which actions are enabled where), the generic execution of an
//! action, state invariants, the quiescence closure and the eventual oracles.
use super::{Act, ChanEv, Cfg, Ended, LateEv, RouterWorld, NAMES};
use crate::vcore::Violation;
use crate::wire::Tx;
use rumqttd::protocol as bp;
use rumqttd::verif::Event;
use std::collections::VecDeque;

fn live(w: &RouterWorld, c: u8) -> bool {
    w.clients[c as usize].link.is_some() && w.model.registered(c as usize)
}

fn next_pkid(w: &mut RouterWorld, ci: usize) -> u16 {
    let c = &mut w.clients[ci];
    c.next_pkid = if c.next_pkid == u16::MAX { 1 } else { c.next_pkid + 1 };
    c.next_pkid
}

fn qos_of(q: bp::QoS) -> u8 {
    q as u8
}

/// scenario-specific publish property sets (index 0 = none)
pub fn prop_table(k: u8) -> Option<crate::wire::Props> {
    use crate::wire::Props;
    if k == 0 {
        return None;
    }
    // bit i of (k-1) selects property i: an exhaustive subset enumeration for k in 1..=256
    let bits = (k as u16 - 1) as u8;
    let mut p = Props::default();
    if bits & 1 != 0 {
        p.pfi = Some(1);
    }
    if bits & 2 != 0 {
        p.expiry = Some(3600);
    }
    if bits & 4 != 0 {
        p.response_topic = Some("resp/t".into());
    }
    if bits & 8 != 0 {
        p.correlation = Some(vec![1, 2, 3]);
    }
    if bits & 16 != 0 {
        p.user = vec![("k".into(), "v".into()), ("k2".into(), "v2".into())];
    }
    if bits & 32 != 0 {
        p.content_type = Some("text/plain".into());
    }
    if bits & 64 != 0 {
        p.alias = Some(3);
    }
    Some(p)
}

fn end_link(w: &mut RouterWorld, ci: usize, events: Vec<LateEv>, auto: bool) {
    if let Some(l) = w.clients[ci].link.take() {
        let name = w.clients[ci].name.clone();
        w.clients[ci].unacked.clear();
        w.clients[ci].rels.clear();
        w.clients[ci].q2.clear();
        w.ended.push(Ended {
            name,
            ci,
            uid: l.uid,
            id: l.id,
            pending: VecDeque::from(events),
            auto,
            pushed: l.pushed,
        });
    }
}

/// Execute one action (no settling here; `World::apply` settles in automatic mode).
pub fn apply(w: &mut RouterWorld, cfg: &Cfg, a: &Act) {
    match a {
        Act::Connect { c, clean, will } => {
            let ci = *c as usize;
            let spec = super::will_spec(*will, cfg);
            if let Some(s) = spec.as_ref() {
                let name = NAMES[ci];
                w.model.register_will(
                    name,
                    String::from_utf8_lossy(&s.topic).to_string(),
                    s.message.to_vec(),
                    qos_of(s.qos),
                    s.retain,
                );
            } else {
                // a connection without a will leaves an earlier registration untouched in the
                // router only for takeovers, which C16 excludes; the model drops it
                w.model.wills.remove(NAMES[ci]);
            }
            let alias_max = if w.clients[ci].v5 && cfg.variant >= 100 { 10 } else { 0 };
            w.connect(ci, *clean, spec, alias_max);
        }
        Act::Sub { c, f, qos } => {
            let ci = *c as usize;
            let pkid = next_pkid(w, ci);
            let filters = vec![(cfg.filters[*f as usize].clone(), *qos)];
            w.send(ci, vec![Tx::Subscribe { pkid, filters, sub_id: None }]);
        }
        Act::Sub2 { c, f1, f2, qos } => {
            let ci = *c as usize;
            let pkid = next_pkid(w, ci);
            let filters = vec![
                (cfg.filters[*f1 as usize].clone(), *qos),
                (cfg.filters[*f2 as usize].clone(), *qos),
            ];
            w.send(ci, vec![Tx::Subscribe { pkid, filters, sub_id: None }]);
        }
        Act::Unsub { c, f } => {
            let ci = *c as usize;
            let pkid = next_pkid(w, ci);
            w.send(ci, vec![Tx::Unsubscribe { pkid, filters: vec![cfg.filters[*f as usize].clone()] }]);
        }
        Act::Unsub2 { c, f1, f2 } => {
            let ci = *c as usize;
            let pkid = next_pkid(w, ci);
            w.send(
                ci,
                vec![Tx::Unsubscribe {
                    pkid,
                    filters: vec![cfg.filters[*f1 as usize].clone(), cfg.filters[*f2 as usize].clone()],
                }],
            );
        }
        Act::Pub { c, t, qos, retain, empty, props } => {
            let ci = *c as usize;
            let tx = make_publish(w, cfg, ci, *t, *qos, *retain, *empty, *props);
            w.send(ci, vec![tx]);
        }
        Act::Burst { c, t, qos, n } => {
            let ci = *c as usize;
            let mut v = Vec::with_capacity(*n as usize);
            for _ in 0..*n {
                v.push(make_publish(w, cfg, ci, *t, *qos, false, false, 0));
            }
            w.send(ci, v);
        }
        Act::Rel { c } => {
            let ci = *c as usize;
            if let Some(pos) = w.clients[ci].q2.iter().position(|e| e.1) {
                if pos == 0 {
                    let (pkid, _) = w.clients[ci].q2.pop_front().unwrap();
                    w.send(ci, vec![Tx::PubRel(pkid)]);
                }
            }
        }
        Act::Ack { c } => {
            let ci = *c as usize;
            if let Some((pkid, q)) = w.clients[ci].unacked.pop_front() {
                let tx = if q == 1 { Tx::PubAck(pkid) } else { Tx::PubRec(pkid) };
                w.send(ci, vec![tx]);
            }
        }
        Act::Comp { c } => {
            let ci = *c as usize;
            if let Some(pkid) = w.clients[ci].rels.pop_front() {
                w.send(ci, vec![Tx::PubComp(pkid)]);
            }
        }
        Act::AckAll { c } => {
            let ci = *c as usize;
            ack_everything(w, ci);
        }
        Act::Ping { c } => w.send(*c as usize, vec![Tx::PingReq]),
        Act::DiscPkt { c } => w.send(*c as usize, vec![Tx::Disconnect]),
        Act::Drop { c } => end_link(w, *c as usize, vec![LateEv::Disconnect, LateEv::Will], true),
        Act::DropLate { c } => end_link(w, *c as usize, vec![LateEv::Disconnect, LateEv::Will], false),
        Act::Late { e } => {
            let i = *e as usize;
            if i < w.ended.len() {
                if let Some(ev) = w.ended[i].pending.pop_front() {
                    let (id, uid, ci, name) = (w.ended[i].id, w.ended[i].uid, w.ended[i].ci, w.ended[i].name.clone());
                    w.deliver_late(id, uid, ci, &name, ev);
                }
                w.ended.retain(|e| !e.pending.is_empty());
            }
        }
        Act::Hold => w.manual = true,
        Act::Turn => {
            w.turn();
        }
        Act::Drain { c } => {
            let ci = *c as usize;
            w.drain_once(ci);
            let due = w.clients[ci].link.as_ref().is_some_and(|l| l.ready_due);
            if due {
                let (id, uid) = {
                    let l = w.clients[ci].link.as_mut().unwrap();
                    l.ready_due = false;
                    (l.id, l.uid)
                };
                w.send_event(id, Event::Ready, ChanEv::Ready(uid));
            }
        }
        Act::Settle => {
            w.manual = false;
        }
        Act::Bad { c, kind } => super::hostile::bad(w, cfg, *c as usize, *kind),
        Act::Batch { c, kind } => super::hostile::batch(w, cfg, *c as usize, *kind),
        Act::Raw { id, kind } => super::hostile::raw(w, cfg, *id as usize, *kind),
        Act::Stall { c } => {
            if let Some(l) = w.clients[*c as usize].link.as_mut() {
                l.stalled = true;
            }
        }
        Act::Unstall { c } => {
            if let Some(l) = w.clients[*c as usize].link.as_mut() {
                l.stalled = false;
            }
        }
        Act::AckN { c, n } => {
            let ci = *c as usize;
            let mut v = vec![];
            for _ in 0..*n {
                if let Some((pkid, q)) = w.clients[ci].unacked.pop_front() {
                    v.push(if q == 1 { Tx::PubAck(pkid) } else { Tx::PubRec(pkid) });
                }
            }
            if !v.is_empty() {
                w.send(ci, v);
            }
        }
        Act::CompN { c, n } => {
            let ci = *c as usize;
            let mut v = vec![];
            for _ in 0..*n {
                if let Some(pkid) = w.clients[ci].rels.pop_front() {
                    v.push(Tx::PubComp(pkid));
                }
            }
            if !v.is_empty() {
                w.send(ci, v);
            }
        }
    }
}

#[allow(clippy::too_many_arguments)]
pub fn make_publish(w: &mut RouterWorld, cfg: &Cfg, ci: usize, t: u8, qos: u8, retain: bool, empty: bool, props: u8) -> Tx {
    let tag = w.fresh_tag();
    let pkid = if qos > 0 { next_pkid(w, ci) } else { 0 };
    if qos == 2 {
        w.clients[ci].q2.push_back((pkid, false));
    }
    Tx::Publish {
        topic: cfg.topics[t as usize].clone(),
        qos,
        retain,
        dup: false,
        pkid,
        payload: RouterWorld::payload_for(tag, empty),
        props: if w.clients[ci].v5 { prop_table(props) } else { None },
    }
}

/// every client acknowledges, in order, everything it has received; publishers release
pub fn ack_everything(w: &mut RouterWorld, ci: usize) -> bool {
    if w.clients[ci].link.is_none() {
        return false;
    }
    let mut v = vec![];
    while let Some((pkid, q)) = w.clients[ci].unacked.pop_front() {
        v.push(if q == 1 { Tx::PubAck(pkid) } else { Tx::PubRec(pkid) });
    }
    while let Some(pkid) = w.clients[ci].rels.pop_front() {
        v.push(Tx::PubComp(pkid));
    }
    while w.clients[ci].q2.front().is_some_and(|e| e.1) {
        let (pkid, _) = w.clients[ci].q2.pop_front().unwrap();
        v.push(Tx::PubRel(pkid));
    }
    if v.is_empty() {
        return false;
    }
    // one packet per notification keeps the order of requests and replies simple
    for tx in v {
        w.send(ci, vec![tx]);
    }
    true
}

/// "deliver everything, run the router, let every client drain and acknowledge in order,
/// repeat until nothing changes"
pub fn closure(w: &mut RouterWorld, _cfg: &Cfg) {
    w.manual = false;
    for c in w.clients.iter_mut() {
        if let Some(l) = c.link.as_mut() {
            l.stalled = false;
        }
    }
    for e in w.ended.iter_mut() {
        e.auto = true;
    }
    for _ in 0..2000 {
        w.settle(true);
        if w.dead.is_some() {
            return;
        }
        let mut any = false;
        for ci in 0..w.clients.len() {
            if ack_everything(w, ci) {
                any = true;
            }
        }
        if !any {
            return;
        }
    }
    let p = w.prop;
    w.pending_viols.push(Violation::new(p, "livelock", "closure did not reach a fixpoint in 2000 rounds"));
}

pub fn check_closed(w: &RouterWorld, _cfg: &Cfg, out: &mut Vec<Violation>) {
    let mut v = vec![];
    w.model.check_complete(&mut v);
    for (c, d) in v {
        out.push(Violation::new(w.prop, c, d));
    }
    check_registered(w, out);
}

/// the model and the router agree on who is connected
fn check_registered(w: &RouterWorld, out: &mut Vec<Violation>) {
    #[cfg(feature = "snapshot")]
    if let Some(r) = w.router.as_ref() {
        if !w.outbox.is_empty() {
            return;
        }
        let snap = r.verif_snapshot();
        let mut have: Vec<&str> = snap.connection_map.iter().map(|(k, _)| k.as_str()).collect();
        have.sort();
        let mut want: Vec<&str> = w
            .model
            .clients
            .iter()
            .enumerate()
            .filter(|(_, c)| c.registered)
            .map(|(i, _)| NAMES[i])
            .collect();
        want.sort();
        if have != want {
            out.push(Violation::new(
                w.prop,
                "connection_set",
                format!("clients registered in the router {have:?}, clients that should be connected {want:?}"),
            ));
        }
        structural(&snap, w.prop, out);
    }
}

#[cfg(feature = "snapshot")]
fn structural(s: &rumqttd::verif::Snapshot, prop: &'static str, out: &mut Vec<Violation>) {
    let k = &s.slab_keys;
    if !(k[0] == k[1] && k[1] == k[2] && k[2] == k[3] && k[3] == k[4]) {
        out.push(Violation::new(prop, "slab_misaligned", format!("per-connection tables have different keys: {k:?}")));
    }
    let mut ids: Vec<usize> = s.connection_map.iter().map(|(_, v)| *v).collect();
    ids.sort();
    let mut dedup = ids.clone();
    dedup.dedup();
    if ids != dedup || ids != k[0] {
        out.push(Violation::new(
            prop,
            "connection_map_not_bijective",
            format!("connection_map {:?} vs live connection ids {:?}", s.connection_map, k[0]),
        ));
    }
    for c in s.connections.iter() {
        if c.inflight.len() > 100 {
            out.push(Violation::new(prop, "inflight_over_100", format!("{} has {} inflight", c.client_id, c.inflight.len())));
        }
    }
}

pub fn check_state(w: &RouterWorld, _cfg: &Cfg, out: &mut Vec<Violation>) {
    if !w.manual {
        check_registered(w, out);
    }
}

// ---------------------------------------------------------------------------------------
// alphabets
// ---------------------------------------------------------------------------------------

fn manual_actions(w: &RouterWorld, cfg: &Cfg, v: &mut Vec<(Act, u8)>) {
    if !cfg.manual {
        return;
    }
    if !w.manual {
        v.push((Act::Hold, 1));
        return;
    }
    v.push((Act::Settle, 0));
    if !w.outbox.is_empty() {
        v.push((Act::Turn, 0));
    }
    for (i, c) in w.clients.iter().enumerate() {
        if let Some(l) = c.link.as_ref() {
            if !l.wake.is_empty() {
                v.push((Act::Drain { c: i as u8 }, 0));
            }
        }
    }
}

fn ack_actions(w: &RouterWorld, cs: &[u8], v: &mut Vec<(Act, u8)>) {
    for &c in cs {
        if !live(w, c) {
            continue;
        }
        let cl = &w.clients[c as usize];
        if !cl.unacked.is_empty() {
            v.push((Act::Ack { c }, 0));
        }
        if !cl.rels.is_empty() {
            v.push((Act::Comp { c }, 0));
        }
    }
}

fn rel_actions(w: &RouterWorld, cs: &[u8], v: &mut Vec<(Act, u8)>) {
    for &c in cs {
        if live(w, c) && w.clients[c as usize].q2.front().is_some_and(|e| e.1) {
            v.push((Act::Rel { c }, 0));
        }
    }
}

fn active_sub(w: &RouterWorld, c: u8, filter: &str) -> bool {
    w.model.clients[c as usize].subs.iter().any(|s| s.active && s.filter == filter)
}

fn active_subs(w: &RouterWorld, c: u8) -> usize {
    w.model.clients[c as usize].subs.iter().filter(|s| s.active).count()
}

pub fn enabled(w: &RouterWorld, cfg: &Cfg) -> Vec<(Act, u8)> {
    let mut v = vec![];
    match cfg.prop.as_str() {
        "C01" => enabled_c01(w, cfg, &mut v),
        _ => {}
    }
    manual_actions(w, cfg, &mut v);
    v
}

/// C01: publishers c0,c1; subscribers c2,c3 (all connected by the prelude)
fn enabled_c01(w: &RouterWorld, cfg: &Cfg, v: &mut Vec<(Act, u8)>) {
    let (sub_qos, pub_qos): (&[u8], &[u8]) = match cfg.variant {
        0 => (&[0, 1], &[0, 1]),
        1 => (&[1, 2], &[1, 2]),
        _ => (&[0, 2], &[0, 1, 2]),
    };
    let subs = [2u8, 3u8];
    let pubs = [0u8, 1u8];
    for &c in pubs.iter() {
        if !live(w, c) {
            continue;
        }
        for t in 0..cfg.topics.len() as u8 {
            for &q in pub_qos {
                v.push((Act::Pub { c, t, qos: q, retain: false, empty: false, props: 0 }, 0));
            }
        }
    }
    rel_actions(w, &pubs, v);
    for &c in subs.iter() {
        if !live(w, c) {
            if w.clients[c as usize].link.is_none() && w.outbox.is_empty() {
                v.push((Act::Connect { c, clean: true, will: 0 }, 0));
            }
            continue;
        }
        for f in 0..cfg.filters.len() as u8 {
            let fs = &cfg.filters[f as usize];
            if active_sub(w, c, fs) {
                v.push((Act::Unsub { c, f }, 0));
            } else if active_subs(w, c) < 2 {
                for &q in sub_qos {
                    v.push((Act::Sub { c, f, qos: q }, 0));
                }
            }
        }
        if cfg.variant == 2 && !w.manual {
            v.push((Act::DiscPkt { c }, 0));
        }
    }
    ack_actions(w, &subs, v);
}
