//! Reference model of what an MQTT broker owes its clients (lists and maps only), fed by
//! (a) the packets the router consumed, in consumption order, and (b) the packets each
//! client decoded. It never looks inside the router.
use super::Cfg;
use crate::e4_topicgrid::ref_matches;
use crate::vcore::Violation;
use crate::wire::{Props, Rx, Tx};
use std::collections::{BTreeMap, BTreeSet, HashSet, VecDeque};
use std::hash::{Hash, Hasher};

#[derive(Clone, Debug, Hash)]
pub struct Msg {
    pub topic: String,
    pub payload: Vec<u8>,
    pub from: usize,
    pub qos: u8,
    pub retain: bool,
    pub props: Option<Props>,
    pub will: bool,
}

#[derive(Clone, Debug, Hash)]
pub struct SubInst {
    /// room in the delivery window when the subscription was made (bounds the retained replay)
    pub retained_window: usize,
    /// filter as subscribed (may be `$share/g/..`)
    pub filter: String,
    pub match_filter: String,
    pub group: Option<String>,
    pub qos: u8,
    /// indexes into `accepted` of messages this subscription must deliver, in order
    pub expect: Vec<u32>,
    pub active: bool,
    /// set when retention evicted messages before they were read (completeness waived)
    pub lagged: bool,
    /// retained messages (indexes) that must be replayed for this new subscription
    pub retained_due: Vec<u32>,
    pub retained_seen: Vec<u32>,
    /// replays that may be repeated on the current connection (see `end_connection`)
    pub retained_repeat: Vec<u32>,
    pub replay_retained: bool,
    /// position in `expect` from which delivery (re)starts on the current connection
    pub restart: u32,
    /// QoS0 only: messages in [restart, skip_to) may have been lost with the old connection
    pub skip_to: u32,
    /// number of accepted messages when the subscription ended
    pub closed_at: Option<u32>,
    /// MQTT 5 subscription identifier given in the SUBSCRIBE
    pub sub_id: Option<usize>,
    /// every QoS this subscription had before a repeated SUBSCRIBE granted another one
    pub past_qos: Vec<u8>,
    /// (old QoS, packet id of the SUBSCRIBE that replaced it): forwards emitted before that
    /// SUBSCRIBE was served may still be on their way, so the old QoS stays acceptable until
    /// its SUBACK has been received on this connection
    pub old_ok: Vec<(u8, u16)>,
}

impl SubInst {
    fn serves(&self, qos: u8) -> bool {
        self.qos == qos || self.old_ok.iter().any(|(o, _)| *o == qos)
    }
}

#[derive(Clone, Debug, Default, Hash)]
pub struct CModel {
    pub registered: bool,
    pub ever_connected: bool,
    pub clean: bool,
    pub epoch: u32,
    pub conn_id: usize,
    /// harness-side unique id of the current link object
    pub conn_uid: u32,
    pub will: bool,
    pub subs: Vec<SubInst>,
    pub forwards: u32,
    /// possible attributions of the forwards seen on this connection to subscriptions:
    /// each entry is a vector of positions, one per subscription instance
    pub frontier: Vec<Vec<u32>>,
    /// attribution of forwards to subscriptions was given up on this connection
    pub waived: bool,
    pub replies_expected: VecDeque<Rx>,
    /// replies owed when the connection was closed: they may still be in the link's
    /// buffer and arrive, or not
    pub replies_optional: VecDeque<Rx>,
    /// PUBRELs the broker owes for PUBRECs it consumed (no statement orders them against
    /// the replies to requests)
    pub rels_expected: Vec<u16>,
    /// filters of the SUBSCRIBEs whose SUBACK has not arrived: (packet id, filters)
    pub sub_requests: VecDeque<(u16, Vec<String>)>,
    pub q2_recorded: VecDeque<u32>,
    /// QoS>0 forwards received and not yet acknowledged (ack consumed by the router):
    /// (pkid, subscription index if unambiguous, position in its expect list)
    pub outstanding: VecDeque<(u16, Option<(u32, u32)>)>,
    /// PUBRECs the router consumed whose PUBCOMP it has not consumed yet
    pub rel_outstanding: VecDeque<u16>,
    pub expect_session_present: Option<bool>,
    pub had_session: bool,
    pub disconnect_notices: u32,
    /// accepted indexes received through a shared group, in arrival order
    pub shared_seen: Vec<(String, u32)>,
    /// topic aliases this connection established as a publisher
    pub alias_in: BTreeMap<u16, String>,
}

#[derive(Clone, Debug, Default, Hash)]
pub struct GroupModel {
    pub members: BTreeSet<usize>,
    /// incremented every time the group becomes empty
    pub epoch: u32,
    /// how often each client has joined (distinguishes memberships of one client)
    pub joins: BTreeMap<usize, u32>,
}

#[derive(Clone, Debug, Hash)]
pub struct GMsg {
    pub idx: u32,
    pub group: String,
    pub gepoch: u32,
    pub delivered_to: Vec<usize>,
    /// (member, connection epoch of the member) per delivery, parallel to `delivered_to`
    pub delivered_on: Vec<u32>,
    /// the memberships (client, join number) that existed when the message was accepted
    pub members_at_accept: Vec<(usize, u32)>,
}

#[derive(Clone)]
pub struct Model {
    /// state before the packet announced by `Tx::Doubt` (a broker may refuse to process it)
    pub doubt: Option<Box<Model>>,
    pub prop: String,
    pub variant: u8,
    pub accepted: Vec<Msg>,
    /// QoS2 publishes received and not yet released
    pub held: Vec<Msg>,
    pub clients: Vec<CModel>,
    pub viols: Vec<(String, String)>,
    pub retained: BTreeMap<String, u32>,
    pub wills: BTreeMap<String, (String, Vec<u8>, u8, bool)>,
    pub notes: Vec<String>,
    pub check_replies: bool,
    pub check_forwards: bool,
    pub check_retained: bool,
    pub check_props: bool,
    pub check_session: bool,
    pub strict_close: bool,
    pub wills_fired: Vec<String>,
    pub groups: BTreeMap<String, GroupModel>,
    pub gmsgs: Vec<GMsg>,
    pub outcome_acc: u64,
    pub v5: Vec<bool>,
    pub max_out: u64,
    /// a member of a shared group with a persistent session has disconnected
    pub persistent_shared_left: bool,
}

/// marks an outstanding forward that more than one subscription explains
const AMBIGUOUS: u32 = u32::MAX;

pub fn split_share(filter: &str) -> (Option<String>, String) {
    if let Some(rest) = filter.strip_prefix("$share/") {
        if let Some((g, f)) = rest.split_once('/') {
            return (Some(g.to_string()), f.to_string());
        }
    }
    (None, filter.to_string())
}

impl Model {
    pub fn new(cfg: &Cfg) -> Model {
        let p = cfg.prop.as_str();
        Model {
            doubt: None,
            prop: cfg.prop.clone(),
            variant: cfg.variant,
            accepted: vec![],
            held: vec![],
            clients: (0..cfg.v5.len()).map(|_| CModel::default()).collect(),
            viols: vec![],
            retained: BTreeMap::new(),
            wills: BTreeMap::new(),
            notes: vec![],
            check_replies: matches!(p, "C06" | "C14" | "C08" | "C09"),
            check_forwards: matches!(p, "C01" | "C06" | "C08" | "C09" | "C14" | "C15" | "C16" | "C17" | "C20" | "C12"),
            check_retained: matches!(p, "C15" | "C16" | "C08" | "C20"),
            check_props: p == "C20",
            check_session: p == "C08",
            strict_close: true,
            wills_fired: vec![],
            groups: BTreeMap::new(),
            gmsgs: vec![],
            outcome_acc: 0,
            v5: cfg.v5.clone(),
            max_out: cfg.max_out,
            persistent_shared_left: false,
        }
    }

    pub fn note(&mut self, s: String) {
        if self.notes.len() < 4 {
            self.notes.push(s);
        }
    }

    fn v(&mut self, code: &str, detail: String) {
        let (code, detail) = self.shared_recode(code, detail);
        self.viols.push((code, detail));
    }

    /// What a shared group does after a member with a *persistent* session has disconnected
    /// is one recorded finding (the router rewinds the group to that member's oldest
    /// unacknowledged message and does not put a resumed member back into the group): the
    /// shared-subscription oracles report under one code from then on.
    fn shared_recode(&self, code: &str, detail: String) -> (String, String) {
        // (a forward of the group that the model can no longer attribute to the group shows up
        // under the plain forward oracles)
        let forward_oracle = code.starts_with("shared_") || matches!(code, "unexpected_forward" | "spurious_forward");
        if self.persistent_shared_left && forward_oracle {
            ("shared_group_after_persistent_member_left".to_string(), format!("(consequence: {code}) {detail}"))
        } else {
            (code.to_string(), detail)
        }
    }

    pub fn take_violations(&mut self, prop: &'static str, out: &mut Vec<Violation>) {
        for (c, d) in self.viols.drain(..) {
            out.push(Violation::new(prop, c, d));
        }
    }

    pub fn registered(&self, ci: usize) -> bool {
        self.clients[ci].registered
    }

    // ------------------------------------------------------------ connection life cycle

    pub fn connect_sent(&mut self, ci: usize, clean: bool, will: bool, takeover: bool) {
        if takeover {
            self.end_connection(ci);
        }
        let c = &mut self.clients[ci];
        // session present iff a previous session exists and both connects are persistent
        c.expect_session_present = Some(!clean && c.had_session);
        c.clean = clean;
        c.will = will;
    }

    pub fn connected(&mut self, ci: usize, conn_id: usize, uid: u32) {
        let resume = {
            let c = &mut self.clients[ci];
            c.conn_uid = uid;
            c.registered = true;
            c.ever_connected = true;
            c.conn_id = conn_id;
            c.epoch += 1;
            c.replies_expected.clear();
            c.replies_optional.clear();
            c.rels_expected.clear();
            c.sub_requests.clear();
            c.outstanding.clear();
            c.q2_recorded.clear();
            c.alias_in.clear();
            // a resumed session is served again from its oldest unacknowledged message
            c.shared_seen.clear();
            !c.clean && c.had_session
        };
        if !resume {
            self.drop_subscriptions(ci);
            let c = &mut self.clients[ci];
            c.rel_outstanding.clear();
            c.had_session = false;
            c.waived = false;
        } else {
            // the broker re-sends the releases the client has not completed
            let c = &mut self.clients[ci];
            c.rels_expected = c.rel_outstanding.iter().cloned().collect();
        }
        let c = &mut self.clients[ci];
        // attribution starts afresh on every connection, from the restart points
        c.frontier = vec![c.subs.iter().map(|s| s.restart).collect::<Vec<u32>>()];
    }

    fn drop_subscriptions(&mut self, ci: usize) {
        let groups: Vec<String> = self.clients[ci]
            .subs
            .iter()
            .filter(|s| s.active)
            .filter_map(|s| s.group.clone())
            .collect();
        for g in groups {
            self.leave_group(&g, ci);
        }
        let now = self.accepted.len() as u32;
        self.clients[ci].subs.iter_mut().for_each(|s| {
            if s.active {
                s.active = false;
                s.closed_at = Some(now);
            }
        });
    }

    fn leave_group(&mut self, g: &str, ci: usize) {
        // a client is a member while it holds at least one active subscription in the group
        if let Some(gm) = self.groups.get_mut(g) {
            if gm.members.remove(&ci) && gm.members.is_empty() {
                gm.epoch += 1;
            }
        }
    }

    /// retention discarded data these connections / saved sessions had not read on `filter`
    pub fn mark_lagged(&mut self, filter: &str, conn_ids: &[usize], names: &[String]) {
        for (ci, c) in self.clients.iter_mut().enumerate() {
            let hit = (c.registered && conn_ids.contains(&c.conn_id)) || names.iter().any(|n| n == super::NAMES[ci]);
            if !hit {
                continue;
            }
            for s in c.subs.iter_mut() {
                if s.active && s.match_filter == filter {
                    s.lagged = true;
                }
            }
        }
    }

    pub fn register_will(&mut self, ci_name: &str, topic: String, payload: Vec<u8>, qos: u8, retain: bool) {
        self.wills.insert(ci_name.to_string(), (topic, payload, qos, retain));
    }

    pub fn connect_refused(&mut self, ci: usize) {
        self.clients[ci].registered = false;
    }

    /// the connection of `ci` is gone (any cause)
    fn end_connection(&mut self, ci: usize) {
        if !self.clients[ci].registered {
            return;
        }
        let clean = self.clients[ci].clean;
        {
            let c = &mut self.clients[ci];
            c.registered = false;
            let owed: Vec<Rx> = c.replies_expected.drain(..).collect();
            c.replies_optional.extend(owed);
            let rels: Vec<u16> = c.rels_expected.drain(..).collect();
            c.replies_optional.extend(rels.into_iter().map(Rx::PubRel));
            c.sub_requests.clear();
            c.q2_recorded.clear();
        }
        if clean {
            self.drop_subscriptions(ci);
            let c = &mut self.clients[ci];
            c.had_session = false;
            c.outstanding.clear();
            c.rel_outstanding.clear();
        } else {
            if self.clients[ci].subs.iter().any(|s| s.active && s.group.is_some()) {
                self.persistent_shared_left = true;
            }
            let c = &mut self.clients[ci];
            c.had_session = true;
            // delivery restarts, per subscription, at its oldest unacknowledged message
            let delivered: Vec<u32> = (0..c.subs.len())
                .map(|j| c.frontier.iter().map(|p| p[j]).min().unwrap_or(0))
                .collect();
            let unacked = !c.outstanding.is_empty();
            if c.outstanding.iter().any(|(_, a)| matches!(a, Some((AMBIGUOUS, _)))) {
                // an unacknowledged forward that several overlapping subscriptions explain:
                // from which message each of them restarts cannot be told, so what this
                // session is sent from here on is not judged
                c.waived = true;
            }
            for (j, s) in c.subs.iter_mut().enumerate() {
                // nothing emitted before a repeated SUBSCRIBE outlives the connection
                s.old_ok.clear();
                s.retained_repeat = if unacked && s.qos > 0 { s.retained_seen.clone() } else { vec![] };
                if !s.active {
                    continue;
                }
                let oldest_unacked = c
                    .outstanding
                    .iter()
                    .filter_map(|(_, a)| *a)
                    .filter(|(sj, _)| *sj as usize == j)
                    .map(|(_, pos)| pos)
                    .min();
                s.restart = oldest_unacked.unwrap_or(delivered[j]);
                s.skip_to = if s.qos == 0 { s.expect.len() as u32 } else { s.restart };
            }
            c.outstanding.clear();
        }
    }

    pub fn link_lost(&mut self, ci: usize) {
        self.end_connection(ci);
    }

    pub fn link_ended_by_router(&mut self, ci: usize) {
        if self.clients[ci].registered && self.strict_close {
            let d = format!(
                "router closed the connection of {} although it sent nothing that warrants it",
                super::NAMES[ci]
            );
            self.v("unexpected_close", d);
        }
        self.end_connection(ci);
    }

    pub fn will_event(&mut self, name: &str) {
        if let Some((topic, payload, qos, retain)) = self.wills.remove(name) {
            self.wills_fired.push(name.to_string());
            let from = super::NAMES.iter().position(|n| *n == name).unwrap_or(0);
            self.accept(Msg {
                topic,
                payload,
                from,
                qos,
                retain,
                props: None,
                will: true,
            });
        }
    }

    // ------------------------------------------------------------ consumption mirror

    fn accept(&mut self, m: Msg) {
        let idx = self.accepted.len() as u32;
        // retained: a retained publish replaces, a retained empty publish removes
        if m.retain {
            if m.payload.is_empty() {
                self.retained.remove(&m.topic);
            } else {
                self.retained.insert(m.topic.clone(), idx);
            }
        }
        let mut group_hits: BTreeSet<String> = BTreeSet::new();
        for c in self.clients.iter_mut() {
            for s in c.subs.iter_mut() {
                if s.active && ref_matches(&m.topic, &s.match_filter) {
                    match &s.group {
                        None => s.expect.push(idx),
                        Some(g) => {
                            group_hits.insert(g.clone());
                        }
                    }
                }
            }
        }
        for g in group_hits {
            if let Some(gm) = self.groups.get(&g) {
                if !gm.members.is_empty() {
                    self.gmsgs.push(GMsg {
                        idx,
                        group: g.clone(),
                        gepoch: gm.epoch,
                        delivered_to: vec![],
                        delivered_on: vec![],
                        members_at_accept: gm.members.iter().map(|m| (*m, gm.joins.get(m).copied().unwrap_or(0))).collect(),
                    });
                }
            }
        }
        self.accepted.push(m);
    }

    /// The router consumed packet `tx` from client `ci`. `self` follows what this broker is
    /// known to do; the returned models follow the other outcomes that no statement rules
    /// out for a client that misbehaves (ignore the packet and go on, answer it, close).
    /// Whichever of them keeps explaining what is observed stays (see `Models`).
    pub fn consumed(&mut self, ci: usize, tx: &Tx) -> Vec<Model> {
        // only C09 says what an unsolicited acknowledgement does to the connection
        let strict_unsolicited = self.prop == "C09";
        match tx {
            Tx::Publish {
                topic,
                qos,
                retain,
                pkid,
                payload,
                props,
                ..
            } => {
                // MQTT 5, 3.3.2.3.4: a non-empty topic with an alias establishes the mapping
                // when the PUBLISH is received; an empty topic is resolved through it
                let mut topic = topic.clone();
                if let Some(a) = props.as_ref().and_then(|p| p.alias) {
                    if topic.is_empty() {
                        match self.clients[ci].alias_in.get(&a) {
                            Some(t) => topic = t.clone(),
                            None => {
                                // (a QoS 0 publish that cannot be routed may also just be dropped)
                                let alts = if *qos == 0 { vec![self.clone()] } else { vec![] };
                                self.closing(ci);
                                return alts;
                            }
                        }
                    } else {
                        self.clients[ci].alias_in.insert(a, topic.clone());
                    }
                }
                let m = Msg {
                    topic,
                    payload: payload.clone(),
                    from: ci,
                    qos: *qos,
                    retain: *retain,
                    props: props.clone(),
                    will: false,
                };
                match qos {
                    0 => self.accept(m),
                    1 => {
                        self.clients[ci].replies_expected.push_back(Rx::PubAck(*pkid));
                        self.accept(m);
                    }
                    _ => {
                        self.clients[ci].replies_expected.push_back(Rx::PubRec(*pkid));
                        // held until released
                        let idx = self.held.len() as u32;
                        self.held.push(m);
                        self.clients[ci].q2_recorded.push_back(idx);
                    }
                }
            }
            Tx::PubRel(pkid) | Tx::PubRelProps(pkid) => match self.clients[ci].q2_recorded.pop_front() {
                Some(h) => {
                    self.clients[ci].replies_expected.push_back(Rx::PubComp(*pkid));
                    let m = self.held[h as usize].clone();
                    self.accept(m);
                }
                None => {
                    // a release for nothing recorded: this broker closes; completing it
                    // (PUBCOMP, as MQTT describes for an unknown id) is the other answer
                    let mut alt = self.clone();
                    alt.clients[ci].replies_expected.push_back(Rx::PubComp(*pkid));
                    self.closing(ci);
                    return vec![alt];
                }
            },
            Tx::Subscribe { pkid, filters, sub_id } => {
                let mut codes = vec![];
                for (f, q) in filters {
                    codes.push(*q);
                    self.subscribe(ci, f, *q, *pkid);
                    // the subscription identifier belongs to the subscription (and with it
                    // to the session)
                    for s in self.clients[ci].subs.iter_mut().filter(|s| s.active && s.filter == *f) {
                        s.sub_id = sub_id.map(|x| x as usize);
                    }
                }
                self.clients[ci].replies_expected.push_back(Rx::SubAck { pkid: *pkid, codes });
                self.clients[ci].sub_requests.push_back((*pkid, filters.iter().map(|(f, _)| f.clone()).collect()));
            }
            Tx::Unsubscribe { pkid, filters } => {
                for f in filters {
                    self.unsubscribe(ci, f);
                }
                self.clients[ci].replies_expected.push_back(Rx::UnsubAck { pkid: *pkid });
            }
            Tx::PingReq => self.clients[ci].replies_expected.push_back(Rx::PingResp),
            Tx::PubAck(id) => {
                let c = &mut self.clients[ci];
                if c.outstanding.front().map(|e| e.0) == Some(*id) {
                    c.outstanding.pop_front();
                } else {
                    // This broker closes. An acknowledgement of a forward that is outstanding,
                    // but not the oldest, may also be taken; one that was never solicited may be
                    // ignored (except under C09, which says it closes the connection).
                    let mut alts = vec![];
                    match c.outstanding.iter().position(|e| e.0 == *id) {
                        Some(p) => {
                            let mut alt = self.clone();
                            alt.clients[ci].outstanding.remove(p);
                            alts.push(alt);
                        }
                        None if !strict_unsolicited => alts.push(self.clone()),
                        None => {}
                    }
                    self.closing(ci);
                    return alts;
                }
            }
            Tx::PubRec(id) => {
                let c = &mut self.clients[ci];
                if c.outstanding.front().map(|e| e.0) == Some(*id) {
                    c.outstanding.pop_front();
                    c.rel_outstanding.push_back(*id);
                    c.rels_expected.push(*id);
                } else {
                    let mut alts = vec![];
                    match c.outstanding.iter().position(|e| e.0 == *id) {
                        Some(p) => {
                            let mut alt = self.clone();
                            let ac = &mut alt.clients[ci];
                            ac.outstanding.remove(p);
                            ac.rel_outstanding.push_back(*id);
                            ac.rels_expected.push(*id);
                            alts.push(alt);
                        }
                        None if !strict_unsolicited => alts.push(self.clone()),
                        None => {}
                    }
                    self.closing(ci);
                    return alts;
                }
            }
            Tx::PubComp(id) => {
                let c = &mut self.clients[ci];
                if c.rel_outstanding.front() == Some(id) {
                    c.rel_outstanding.pop_front();
                } else {
                    let mut alts = vec![];
                    match c.rel_outstanding.iter().position(|e| e == id) {
                        Some(p) => {
                            let mut alt = self.clone();
                            alt.clients[ci].rel_outstanding.remove(p);
                            alts.push(alt);
                        }
                        None if !strict_unsolicited => alts.push(self.clone()),
                        None => {}
                    }
                    self.closing(ci);
                    return alts;
                }
            }
            Tx::Disconnect => {
                let name = super::NAMES[ci].to_string();
                self.wills.remove(&name);
                self.end_connection(ci);
            }
            Tx::Raw(_) => {}
            Tx::Doubt => {
                let mut snap = self.clone();
                snap.doubt = None;
                self.doubt = Some(Box::new(snap));
            }
            Tx::CloseMark => {
                // this broker closes for the packet before the marker; a broker that
                // processes it, or refuses it, and keeps the connection is not ruled out
                let refused = self.doubt.take();
                let mut alts = vec![self.clone()];
                if let Some(b) = refused {
                    alts.push(*b);
                }
                self.closing(ci);
                return alts;
            }
            Tx::MayClose => {
                // this broker goes on after the packet before the marker; one that refuses
                // it, or closes the connection for it, is not ruled out
                let refused = self.doubt.take();
                let mut alt = self.clone();
                alt.closing(ci);
                let mut alts = vec![alt];
                if let Some(b) = refused {
                    alts.push(*b);
                }
                return alts;
            }
        }
        vec![]
    }

    /// the subscription of `ci` for `f` ends (UNSUBSCRIBE, or a SUBACK that refuses the filter)
    fn unsubscribe(&mut self, ci: usize, f: &str) {
        let mut left: Vec<String> = vec![];
        let now = self.accepted.len() as u32;
        for s in self.clients[ci].subs.iter_mut() {
            if s.active && s.filter == f {
                s.active = false;
                s.closed_at = Some(now);
                if let Some(g) = &s.group {
                    left.push(g.clone());
                }
            }
        }
        for g in left {
            let still = self.clients[ci]
                .subs
                .iter()
                .any(|s| s.active && s.group.as_deref() == Some(g.as_str()));
            if !still {
                self.leave_group(&g, ci);
            }
        }
    }

    /// the client did something for which the broker closes its connection
    pub fn closing(&mut self, ci: usize) {
        self.end_connection(ci);
    }

    fn subscribe(&mut self, ci: usize, f: &str, q: u8, pkid: u16) {
        let (group, mf) = split_share(f);
        // a shared subscription is identified by share name *and* filter (MQTT 5, 4.8.2):
        // `$share/g/t` and `$share/g/u` are two independent groups
        let group = group.map(|_| f.to_string());
        if let Some(s) = self.clients[ci].subs.iter_mut().find(|s| s.active && s.filter == f) {
            // repeating an existing subscription: nothing new (no retained replay), but the
            // SUBACK grants the QoS of this SUBSCRIBE: it replaces the old one (MQTT-3.8.4-3)
            if s.qos != q {
                if !s.past_qos.contains(&s.qos) {
                    s.past_qos.push(s.qos);
                }
                s.old_ok.push((s.qos, pkid));
                s.past_qos.retain(|o| *o != q);
                s.qos = q;
            }
            return;
        }
        let mut retained_due = vec![];
        let replay = group.is_none();
        if replay {
            for (t, idx) in self.retained.iter() {
                if ref_matches(t, &mf) {
                    retained_due.push(*idx);
                }
            }
        }
        if let Some(g) = &group {
            let gm = self.groups.entry(g.clone()).or_default();
            if gm.members.insert(ci) {
                *gm.joins.entry(ci).or_insert(0) += 1;
            }
        }
        let c = &mut self.clients[ci];
        // "provided those fit in its delivery window": what is free of it when the
        // subscription is made, less what its other subscriptions may put there first
        let pending: usize = c
            .subs
            .iter()
            .enumerate()
            .filter(|(_, s)| s.active && s.group.is_none())
            .map(|(j, s)| s.expect.len().saturating_sub(c.frontier.iter().map(|p| p[j]).min().unwrap_or(0) as usize))
            .sum();
        let total = if q == 0 { self.max_out.min(10_000) as usize } else { 100 };
        let retained_window = total.saturating_sub(c.outstanding.len() + pending);
        c.subs.push(SubInst {
            retained_window,
            filter: f.to_string(),
            match_filter: mf,
            group,
            qos: q,
            expect: vec![],
            active: true,
            lagged: false,
            retained_due,
            retained_seen: vec![],
            retained_repeat: vec![],
            replay_retained: replay,
            restart: 0,
            skip_to: 0,
            closed_at: None,
            sub_id: None,
            past_qos: vec![],
            old_ok: vec![],
        });
        for p in c.frontier.iter_mut() {
            p.push(0);
        }
    }

    // ------------------------------------------------------------ observations

    pub fn received(&mut self, ci: usize, rx: &Rx) {
        self.outcome_acc = crate::vcore::fp64(&(self.outcome_acc, ci, rx));
        match rx {
            Rx::ConnAck { session_present, ok } => {
                if !*ok {
                    self.v("connack_not_success", format!("{} got a failing CONNACK from the router", super::NAMES[ci]));
                } else if let Some(exp) = self.clients[ci].expect_session_present {
                    if exp != *session_present && self.check_session {
                        self.v(
                            "session_present",
                            format!("{}: CONNACK session_present={} but expected {}", super::NAMES[ci], session_present, exp),
                        );
                    }
                }
            }
            Rx::Publish {
                topic,
                qos,
                retain,
                pkid,
                payload,
                props,
                ..
            } => self.forward(ci, topic, *qos, *retain, *pkid, payload, props),
            Rx::PubAck(_) | Rx::PubRec(_) | Rx::PubComp(_) | Rx::SubAck { .. } | Rx::UnsubAck { .. } | Rx::PingResp | Rx::PubRel(_) => {
                if let Rx::SubAck { pkid, .. } = rx {
                    // what the router emits behind this SUBACK is served under the new grant
                    for s in self.clients[ci].subs.iter_mut() {
                        s.old_ok.retain(|(_, p)| p != pkid);
                    }
                }
                self.reply(ci, rx)
            }
            Rx::Disconnect(_) => self.clients[ci].disconnect_notices += 1,
            Rx::Other(s) => self.v("unexpected_packet_kind", format!("{} received {s}", super::NAMES[ci])),
        }
    }

    fn reply(&mut self, ci: usize, rx: &Rx) {
        let check = self.check_replies;
        // one code per requested filter; which QoS it grants, or whether it refuses the
        // filter, is the broker's to say
        fn same_reply(e: &Rx, rx: &Rx) -> bool {
            match (e, rx) {
                (Rx::SubAck { pkid: a, codes: ca }, Rx::SubAck { pkid: b, codes: cb }) => {
                    a == b && ca.len() == cb.len() && ca.iter().zip(cb.iter()).all(|(want, got)| got == want || got < want || *got >= 0x80)
                }
                _ => e == rx,
            }
        }
        if let Rx::PubRel(id) = rx {
            let c = &mut self.clients[ci];
            if let Some(p) = c.rels_expected.iter().position(|e| e == id) {
                c.rels_expected.remove(p);
            } else if let Some(p) = c.replies_optional.iter().position(|e| e == rx) {
                c.replies_optional.drain(..=p);
            } else {
                let d = format!("{} received PUBREL {id} for which it sent no PUBREC (owed: {:?})", super::NAMES[ci], c.rels_expected);
                self.v("unexpected_release", d);
            }
            return;
        }
        if let (Rx::SubAck { pkid, codes }, Some(e)) = (rx, self.clients[ci].replies_expected.front().cloned()) {
            if same_reply(&e, rx) {
                // the grant is what the SUBACK says
                let filters = {
                    let c = &mut self.clients[ci];
                    let p = c.sub_requests.iter().position(|(id, _)| id == pkid);
                    p.and_then(|p| c.sub_requests.remove(p)).map(|(_, f)| f).unwrap_or_default()
                };
                let want = if let Rx::SubAck { codes, .. } = &e { codes.clone() } else { vec![] };
                for ((f, got), want) in filters.iter().zip(codes.iter()).zip(want.iter()) {
                    if got == want {
                        continue;
                    }
                    if *got >= 0x80 {
                        self.unsubscribe(ci, f);
                    } else if let Some(s) = self.clients[ci].subs.iter_mut().find(|s| s.active && s.filter == *f) {
                        s.qos = *got;
                    }
                }
            }
        }
        let c = &mut self.clients[ci];
        match c.replies_expected.front() {
            Some(e) if same_reply(e, rx) => {
                c.replies_expected.pop_front();
            }
            other => {
                if let Some(p) = c.replies_optional.iter().position(|e| same_reply(e, rx)) {
                    // owed before the connection was closed; everything older is skipped
                    c.replies_optional.drain(..=p);
                    return;
                }
                if check {
                    let d = format!(
                        "{} received {:?}; next owed reply is {:?} (queue {:?})",
                        super::NAMES[ci],
                        rx,
                        other,
                        c.replies_expected
                    );
                    self.v("unexpected_reply", d);
                } else if let Some(p) = c.replies_expected.iter().position(|e| same_reply(e, rx)) {
                    c.replies_expected.remove(p);
                }
            }
        }
    }

    fn content_is(&self, idx: u32, topic: &str, payload: &[u8]) -> bool {
        let m = &self.accepted[idx as usize];
        m.topic == topic && m.payload == payload
    }

    #[allow(clippy::too_many_arguments)]
    fn forward(&mut self, ci: usize, topic: &str, qos: u8, retain: bool, pkid: u16, payload: &[u8], props: &Option<Props>) {
        self.clients[ci].forwards += 1;
        let name = super::NAMES[ci];
        // ---- outbound window (C09): checked for every property, it is cheap
        let mut window_slot = false;
        if qos > 0 {
            if pkid == 0 {
                self.v("forward_pkid_zero", format!("QoS{qos} forward to {name} carries packet id 0"));
            } else if self.clients[ci].outstanding.iter().any(|e| e.0 == pkid) {
                let d = format!(
                    "forward to {name} reuses packet id {pkid} while it is still unacknowledged ({:?})",
                    self.clients[ci].outstanding.iter().map(|e| e.0).collect::<Vec<_>>()
                );
                self.v("forward_pkid_reused", d);
            }
            window_slot = true;
        }
        if !self.check_forwards {
            if window_slot {
                self.push_outstanding(ci, pkid, None);
            }
            return;
        }
        // ---- subscription identifiers (MQTT 5 subscribers): a forward carries the identifier
        // of the subscription it is sent for, also after the session has been resumed
        if self.v5.get(ci).copied().unwrap_or(false) && matches!(self.prop.as_str(), "C08" | "C20") {
            let matching: Vec<Option<usize>> = self.clients[ci]
                .subs
                .iter()
                .filter(|s| s.active && ref_matches(topic, &s.match_filter))
                .map(|s| s.sub_id)
                .collect();
            let got: Vec<usize> = props.as_ref().map(|p| p.sub_ids.clone()).unwrap_or_default();
            if !matching.is_empty() {
                let allowed: Vec<usize> = matching.iter().flatten().cloned().collect();
                if got.iter().any(|g| !allowed.contains(g)) {
                    self.v("subscription_id_wrong", format!("forward of {topic} to {name} carries subscription identifiers {got:?}; its matching subscriptions have {matching:?}"));
                } else if got.is_empty() && matching.iter().all(|m| m.is_some()) {
                    self.v("subscription_id_missing", format!("forward of {topic} to {name} carries no subscription identifier; its matching subscriptions have {matching:?}"));
                }
            }
        }
        // ---- replay of a retained message for a new subscription
        if retain {
            if window_slot {
                self.push_outstanding(ci, pkid, None);
            }
            let mut ok = false;
            let mut hit: Option<(usize, u32)> = None;
            for (j, s) in self.clients[ci].subs.iter().enumerate() {
                // (a subscription that has ended in the meantime may still get the replay
                // that was already on its way)
                // (no statement fixes the QoS of a replay: MQTT sends it at the lower of the
                // stored message's QoS and the grant, this broker at the grant)
                if !(s.replay_retained && (qos <= s.qos || s.serves(qos))) {
                    continue;
                }
                for m in s.retained_due.iter() {
                    if !s.retained_seen.contains(m) && self.content_is(*m, topic, payload) {
                        hit = Some((j, *m));
                        break;
                    }
                }
                if hit.is_some() {
                    break;
                }
            }
            if hit.is_none() {
                // The router reads the retained set when it first serves the subscription, not
                // when it consumes the SUBSCRIBE: a message retained in between (same router
                // turn) is replayed too, in addition to its live copy. The statement does not
                // say which instant counts, so this is accepted for a subscription that has
                // not delivered anything live yet.
                let cur = self.retained.get(topic).cloned();
                for (j, s) in self.clients[ci].subs.iter().enumerate() {
                    let fresh = self.clients[ci].frontier.iter().all(|p| p[j] == s.restart);
                    if s.replay_retained && qos <= s.qos && fresh && ref_matches(topic, &s.match_filter) {
                        if let Some(m) = cur {
                            if !s.retained_seen.contains(&m) && self.content_is(m, topic, payload) {
                                hit = Some((j, m));
                                break;
                            }
                        }
                    }
                }
            }
            if let Some((j, m)) = hit {
                self.clients[ci].subs[j].retained_seen.push(m);
                ok = true;
            }
            if !ok {
                // a replay that was unacknowledged when the previous connection of this
                // session ended may be sent again (C08 leaves replays out of its claim)
                let again = self.clients[ci].subs.iter().enumerate().find_map(|(j, s)| {
                    s.retained_repeat.iter().position(|m| self.content_is(*m, topic, payload)).map(|p| (j, p))
                });
                if let Some((j, p)) = again {
                    self.clients[ci].subs[j].retained_repeat.remove(p);
                    ok = true;
                }
            }
            if !ok {
                let d = format!(
                    "{name} received {topic} ({:?}) flagged retained, but no new subscription of it is owed that replay",
                    String::from_utf8_lossy(payload)
                );
                self.v("retained_flag_unexpected", d);
            }
            return;
        }
        // ---- live forward through a plain subscription: must extend some attribution
        // Only C01 says at which QoS a message is forwarded (the granted one). For the other
        // statements a forward at another QoS is attributed all the same when no
        // subscription explains it at its own QoS.
        if self.clients[ci].waived {
            if window_slot {
                self.push_outstanding(ci, pkid, None);
            }
            return;
        }
        let passes: &[bool] = if self.prop == "C01" { &[false] } else { &[false, true] };
        for &any_qos in passes {
        // What still exists explains a forward before what has ended (an ended subscription or
        // membership only explains what may have been on its way), and a group explains it
        // only if it owes that message to somebody: (0) plain subscriptions in force,
        // (1) memberships in force of a group that owes it, (2) ended plain subscriptions,
        // (3) ended memberships of a group that owes it, (4) any membership of a group the
        // message was accepted for (a duplicate, unless excused), (5) any membership (spurious).
        for stage in 0..6u8 {
        if stage == 0 || stage == 2 {
        let want_active = stage == 0;
        let mut next: Vec<Vec<u32>> = vec![];
        let mut attr: Option<(u32, u32)> = None;
        let mut n_attr = 0;
        {
            let c = &self.clients[ci];
            let mut seen: HashSet<Vec<u32>> = HashSet::new();
            for pos in c.frontier.iter() {
                for (j, s) in c.subs.iter().enumerate() {
                    if s.group.is_some() || s.active != want_active || !(any_qos || s.serves(qos)) {
                        continue;
                    }
                    let p = pos[j];
                    let mut cand: Option<u32> = None;
                    if let Some(e) = s.expect.get(p as usize) {
                        if self.content_is(*e, topic, payload) {
                            cand = Some(p);
                        }
                    }
                    if cand.is_none() && s.lagged {
                        // retention discarded part of this subscription's backlog: messages
                        // may be skipped, never reordered or repeated
                        for q in p + 1..s.expect.len() as u32 {
                            if self.content_is(s.expect[q as usize], topic, payload) {
                                cand = Some(q);
                                break;
                            }
                        }
                    }
                    if cand.is_none() && s.qos == 0 && p < s.skip_to {
                        // QoS0 messages in flight when the previous connection ended may be lost
                        for q in p + 1..=s.skip_to.min(s.expect.len() as u32) {
                            if let Some(e) = s.expect.get(q as usize) {
                                if self.content_is(*e, topic, payload) {
                                    cand = Some(q);
                                    break;
                                }
                            }
                        }
                    }
                    if let Some(q) = cand {
                        let mut n = pos.clone();
                        n[j] = q + 1;
                        if seen.insert(n.clone()) {
                            next.push(n);
                            attr = Some((j as u32, q));
                            n_attr += 1;
                        }
                    }
                }
            }
        }
        if !next.is_empty() {
            if next.len() > 1024 {
                // too many ways to attribute what this client has received to its overlapping
                // subscriptions: dropping some could drop the true one, so its forwards are
                // no longer judged on this connection
                next.truncate(1);
                self.clients[ci].waived = true;
            }
            self.clients[ci].frontier = next;
            if window_slot {
                // (several subscriptions explain it: remembered as such, see `end_connection`)
                self.push_outstanding(ci, pkid, if n_attr == 1 { attr } else { Some((AMBIGUOUS, 0)) });
            }
            if self.check_props {
                self.check_forward_props(ci, attr, props);
            }
            return;
        }
        continue;
        }
        // ---- forward through a shared group
        // (a membership that has ended still explains messages accepted before it ended:
        // they may sit in the member's buffer)
        // which memberships this stage looks at (None: all), and what their group must hold
        let want_ended: Option<bool> = match stage {
            1 => Some(false),
            3 => Some(true),
            _ => None,
        };
        let newest_undelivered = self
            .gmsgs
            .iter()
            .filter(|g| g.delivered_to.is_empty() && self.content_is(g.idx, topic, payload))
            .map(|g| g.idx)
            .min();
        let mut cand: Vec<(bool, String)> = self.clients[ci]
            .subs
            .iter()
            .filter(|s| {
                s.group.is_some()
                    && want_ended.is_none_or(|e| s.active != e)
                    && (any_qos || s.serves(qos))
                    && ref_matches(topic, &s.match_filter)
                    && (s.active || newest_undelivered.is_some_and(|i| s.closed_at.is_some_and(|c| i < c)))
            })
            .filter_map(|s| s.group.clone().map(|g| (!s.active, g)))
            .collect();
        // (memberships that still exist explain a forward before memberships that have ended)
        cand.sort_by_key(|(ended, _)| *ended);
        let candidates: Vec<String> = cand.into_iter().map(|(_, g)| g).collect();
        // a member of several groups on one topic gets a message once per group: the
        // forward is attributed to a group that still owes this content to somebody
        let via_group: Option<String> = match stage {
            1 | 3 => candidates
                .iter()
                .find(|g| self.gmsgs.iter().any(|m| m.group == **g && m.delivered_to.is_empty() && self.content_is(m.idx, topic, payload)))
                .cloned(),
            4 => candidates.iter().find(|g| self.gmsgs.iter().any(|m| m.group == **g && self.content_is(m.idx, topic, payload))).cloned(),
            _ => candidates.first().cloned(),
        };
        if let Some(g) = via_group {
            if window_slot {
                self.push_outstanding(ci, pkid, None);
            }
            self.shared_forward(ci, &g, topic, payload, candidates.len() > 1);
            return;
        }
        }
        }
        if window_slot {
            self.push_outstanding(ci, pkid, None);
        }
        let known = self
            .accepted
            .iter()
            .position(|m| m.topic == topic && m.payload == payload);
        // the next owed message of a subscription, but at the QoS the subscription had before
        // a repeated SUBSCRIBE was granted another one
        let stale_qos: Option<(usize, String)> = {
            let c = &self.clients[ci];
            c.subs.iter().enumerate().find_map(|(j, s)| {
                let next_owed = c.frontier.iter().any(|p| s.expect.get(p[j] as usize).is_some_and(|e| self.content_is(*e, topic, payload)));
                (s.active && s.past_qos.contains(&qos) && next_owed)
                    .then(|| (j, format!("{} (granted QoS {} by the repeated SUBSCRIBE, QoS {} before)", s.filter, s.qos, qos)))
            })
        };
        if let Some((j, which)) = stale_qos {
            let d = format!("{name} received {topic}:{} at QoS {qos} for its subscription {which}", String::from_utf8_lossy(payload));
            self.v("resubscribe_qos_not_applied", d);
            // the message counts as delivered through that subscription
            let c = &self.clients[ci];
            let mut next: Vec<Vec<u32>> = vec![];
            for pos in c.frontier.iter() {
                if c.subs[j].expect.get(pos[j] as usize).is_some_and(|e| self.content_is(*e, topic, payload)) {
                    let mut n = pos.clone();
                    n[j] += 1;
                    if !next.contains(&n) {
                        next.push(n);
                    }
                }
            }
            self.clients[ci].frontier = next;
            return;
        }
        let c = &self.clients[ci];
        let subs: Vec<String> = c
            .subs
            .iter()
            .enumerate()
            .filter(|(_, s)| s.active)
            .map(|(j, s)| {
                let nx = c.frontier.first().and_then(|p| s.expect.get(p[j] as usize)).map(|e| {
                    let m = &self.accepted[*e as usize];
                    format!("{}:{}", m.topic, String::from_utf8_lossy(&m.payload))
                });
                format!("[{} q{} next_owed={:?}]", s.filter, s.qos, nx)
            })
            .collect();
        let d = format!(
            "{name} received {topic}:{} (qos {qos}){} which is not the next owed message of any of its subscriptions {}",
            String::from_utf8_lossy(payload),
            if known.is_none() { " that nobody published" } else { "" },
            subs.join(" ")
        );
        self.v(if known.is_none() { "spurious_forward" } else { "unexpected_forward" }, d);
    }

    fn push_outstanding(&mut self, ci: usize, pkid: u16, attr: Option<(u32, u32)>) {
        let c = &mut self.clients[ci];
        c.outstanding.push_back((pkid, attr));
        if c.outstanding.len() > 100 {
            let d = format!(
                "{} has {} QoS>0 publishes awaiting acknowledgement",
                super::NAMES[ci],
                c.outstanding.len()
            );
            self.v("window_exceeded", d);
        }
    }

    fn check_forward_props(&mut self, ci: usize, attr: Option<(u32, u32)>, props: &Option<Props>) {
        let Some((j, q)) = attr else { return };
        let idx = self.clients[ci].subs[j as usize].expect[q as usize];
        let sent = self.accepted[idx as usize].props.clone().map(|p| p.end_to_end()).filter(|p| !p.is_empty());
        let got = props.clone().map(|p| p.end_to_end()).filter(|p| !p.is_empty());
        if !self.v5[ci] {
            if got.is_some() {
                self.v("props_towards_v4", format!("{} (MQTT 3.1.1) received properties {got:?}", super::NAMES[ci]));
            }
        } else if sent != got {
            self.v(
                "props_not_preserved",
                format!("{} (MQTT 5) received properties {got:?}, publisher sent {sent:?}", super::NAMES[ci]),
            );
        }
    }

    /// `several`: this client is in more than one group that matches the topic (which copy
    /// belongs to which group is a guess; no order is promised between groups)
    fn shared_forward(&mut self, ci: usize, g: &str, topic: &str, payload: &[u8], several: bool) {
        let name = super::NAMES[ci];
        // oldest message of the group with this content that this member has not received
        let mut hit: Option<usize> = None;
        for (k, gm) in self.gmsgs.iter().enumerate() {
            if gm.group == g && self.content_is(gm.idx, topic, payload) {
                hit = Some(k);
                if gm.delivered_to.is_empty() {
                    break;
                }
            }
        }
        let Some(k) = hit else {
            self.v(
                "shared_spurious",
                format!("{name} received {topic}:{} through group {g}, which was never accepted for that group", String::from_utf8_lossy(payload)),
            );
            return;
        };
        let idx = self.gmsgs[k].idx;
        // not a second forward: a retransmission to the same member on a later connection of
        // its persistent session, or a re-dispatch after the session of every earlier
        // recipient has ended (MQTT 5, 4.8.2)
        let my_epoch = self.clients[ci].epoch;
        let excused = self.gmsgs[k].delivered_to.iter().zip(self.gmsgs[k].delivered_on.iter()).all(|(m, on)| {
            let c = &self.clients[*m];
            if *m == ci {
                *on != my_epoch && !c.clean
            } else {
                // that member's session is gone: clean session whose connection has ended
                c.clean && (!c.registered || c.epoch != *on)
            }
        });
        // Several groups on one topic: a member of two of them gets the message once per
        // group, and which copy belongs to which group cannot be seen on the wire. Before a
        // second forward inside this group is called a duplicate, an earlier forward to a
        // member that is also in another group which still owes this message to somebody
        // is re-attributed to that group.
        let mut moved = false;
        if !self.gmsgs[k].delivered_to.is_empty() && !excused {
            let earlier: Vec<(usize, u32)> = self.gmsgs[k].delivered_to.iter().cloned().zip(self.gmsgs[k].delivered_on.iter().cloned()).collect();
            for (pos, (r, on)) in earlier.into_iter().enumerate() {
                let other = self.gmsgs.iter().position(|m| {
                    m.idx == idx && m.group != g && m.delivered_to.is_empty() && m.members_at_accept.iter().any(|(mm, _)| *mm == r)
                });
                if let Some(k2) = other {
                    self.gmsgs[k].delivered_to.remove(pos);
                    self.gmsgs[k].delivered_on.remove(pos);
                    self.gmsgs[k2].delivered_to.push(r);
                    self.gmsgs[k2].delivered_on.push(on);
                    let g2 = self.gmsgs[k2].group.clone();
                    if let Some(e) = self.clients[r].shared_seen.iter_mut().rev().find(|(sg, i)| sg == g && *i == idx) {
                        e.0 = g2;
                    }
                    moved = true;
                    break;
                }
            }
        }
        if !self.gmsgs[k].delivered_to.is_empty() && !excused && !moved {
            let d = format!(
                "message {topic}:{} of group {g} was forwarded to {name} after it had already been forwarded to {:?}",
                String::from_utf8_lossy(payload),
                self.gmsgs[k].delivered_to.iter().map(|c| super::NAMES[*c]).collect::<Vec<_>>()
            );
            self.v("shared_duplicate", d);
        }
        self.gmsgs[k].delivered_to.push(ci);
        self.gmsgs[k].delivered_on.push(my_epoch);
        // acceptance order within one shared subscription (two groups read two logs: no order
        // is promised between them)
        if let Some((_, last)) = self.clients[ci].shared_seen.iter().rev().find(|(sg, _)| sg == g) {
            if *last > idx && !several {
                let last = *last;
                self.v(
                    "shared_order",
                    format!("{name} received message #{idx} of group {g} after message #{last}"),
                );
            }
        }
        self.clients[ci].shared_seen.push((g.to_string(), idx));
    }

    // ------------------------------------------------------------ closure-time oracles

    /// everything owed has arrived (called at quiescence after in-order acknowledgement)
    pub fn check_complete(&self, out: &mut Vec<(String, String)>) {
        for (ci, c) in self.clients.iter().enumerate() {
            if !c.registered {
                continue;
            }
            if self.check_replies && !c.replies_expected.is_empty() {
                out.push((
                    "missing_reply".into(),
                    format!("{} is still owed {:?} after the broker went idle", super::NAMES[ci], c.replies_expected),
                ));
            }
            if !c.rels_expected.is_empty() {
                out.push((
                    "release_missing".into(),
                    format!("{} acknowledged QoS 2 forwards with PUBREC {:?} and got no PUBREL for them although the broker went idle", super::NAMES[ci], c.rels_expected),
                ));
            }
            if self.check_forwards && !c.waived {
                let complete = c.frontier.iter().any(|pos| {
                    c.subs.iter().enumerate().all(|(j, s)| {
                        !s.active || s.group.is_some() || s.lagged || pos[j] as usize == s.expect.len()
                    })
                });
                if !complete {
                    let missing: Vec<String> = c
                        .subs
                        .iter()
                        .enumerate()
                        .filter(|(_, s)| s.active && s.group.is_none())
                        .map(|(j, s)| {
                            let got = c.frontier.iter().map(|p| p[j]).max().unwrap_or(0);
                            format!("{} (q{}): {}/{} delivered", s.filter, s.qos, got, s.expect.len())
                        })
                        .collect();
                    out.push(self.shared_recode(
                        "undelivered",
                        format!("{} idle broker, all acknowledged, but not everything arrived: {}", super::NAMES[ci], missing.join(", ")),
                    ));
                }
            }
            if self.check_retained {
                for s in c.subs.iter() {
                    if s.active && s.replay_retained {
                        let mut due = s.retained_due.clone();
                        due.sort();
                        let mut seen = s.retained_seen.clone();
                        seen.sort();
                        // "provided those fit in its delivery window"
                        let window = s.retained_window;
                        // every message owed at subscription time has been replayed, unless it
                        // was replaced or cleared before the subscription was first served
                        let missing = due.iter().any(|d| {
                            !seen.contains(d) && self.retained.get(&self.accepted[*d as usize].topic) == Some(d)
                        });
                        if missing && due.len() <= window {
                            out.push((
                                "retained_replay".into(),
                                format!(
                                    "{} subscribed {}: retained messages owed {:?}, replayed {:?}",
                                    super::NAMES[ci],
                                    s.filter,
                                    due.iter().map(|i| self.accepted[*i as usize].topic.clone()).collect::<Vec<_>>(),
                                    seen.iter().map(|i| self.accepted[*i as usize].topic.clone()).collect::<Vec<_>>()
                                ),
                            ));
                        }
                    }
                }
            }
        }
        if self.check_forwards {
            for gm in self.gmsgs.iter() {
                let Some(g) = self.groups.get(&gm.group) else { continue };
                // owed to a membership that existed when the message was accepted, still
                // exists and is connected now (a later joiner, or a saved session that is
                // offline, cannot be blamed)
                let live_member = gm.members_at_accept.iter().any(|(m, j)| {
                    g.members.contains(m) && g.joins.get(m) == Some(j) && self.clients[*m].registered
                });
                if gm.delivered_to.is_empty() && g.epoch == gm.gepoch && live_member {
                    let m = &self.accepted[gm.idx as usize];
                    out.push(self.shared_recode(
                        "shared_undelivered",
                        format!(
                            "message {}:{} accepted for group {} (members {:?}) reached no member although the group never became empty",
                            m.topic,
                            String::from_utf8_lossy(&m.payload),
                            gm.group,
                            g.members.iter().map(|c| super::NAMES[*c]).collect::<Vec<_>>()
                        ),
                    ));
                }
            }
        }
    }

    pub fn hash_state<H: Hasher>(&self, h: &mut H) {
        self.accepted.hash(h);
        self.held.len().hash(h);
        for c in self.clients.iter() {
            c.hash(h);
        }
        self.retained.hash(h);
        self.wills.hash(h);
        self.wills_fired.hash(h);
        self.groups.hash(h);
        self.gmsgs.hash(h);
        self.persistent_shared_left.hash(h);
    }

    pub fn outcome(&self) -> u64 {
        self.outcome_acc
    }

    pub fn describe(&self) -> String {
        let mut s = format!("accepted={} ", self.accepted.len());
        for (i, c) in self.clients.iter().enumerate() {
            if c.ever_connected {
                s += &format!(
                    "[{} reg={} fw={} owed={:?} out={:?} subs={:?}] ",
                    super::NAMES[i],
                    c.registered,
                    c.forwards,
                    c.replies_expected,
                    c.outstanding.iter().map(|e| e.0).collect::<Vec<_>>(),
                    c.subs.iter().filter(|s| s.active).map(|s| format!("{}q{}:{}", s.filter, s.qos, s.expect.len())).collect::<Vec<_>>()
                );
            }
        }
        s
    }
}
