//! Reference model of what an MQTT broker owes its clients (lists and maps only), fed by
//! (a) the packets the router consumed, in consumption order, and (b) the packets each
//! client decoded. It never looks inside the router.
use super::Cfg;
use crate::e4_topicgrid::ref_matches;
use crate::vcore::Violation;
use crate::wire::{Props, Rx, Tx};
use std::collections::{BTreeMap, HashSet, VecDeque};
use std::hash::{Hash, Hasher};

#[derive(Clone, Debug, Hash)]
pub struct Msg {
    pub topic: String,
    pub payload: Vec<u8>,
    pub from: usize,
    pub qos: u8,
    pub retain: bool,
    pub props: Option<Props>,
    pub will: bool,
}

#[derive(Clone, Debug, Hash)]
pub struct SubInst {
    /// filter as subscribed (may be `$share/g/..`)
    pub filter: String,
    pub match_filter: String,
    pub group: Option<String>,
    pub qos: u8,
    /// indexes into `accepted` of messages this subscription must deliver, in order
    pub expect: Vec<u32>,
    pub active: bool,
    /// connection epoch in which it was created
    pub epoch: u32,
    /// set when retention evicted messages before they were read (completeness waived)
    pub lagged: bool,
    /// retained messages (indexes) that must be replayed for this new subscription
    pub retained_due: Vec<u32>,
    pub retained_seen: Vec<u32>,
    pub replay_retained: bool,
    /// C08: position in `expect` from which delivery (re)starts on the current connection
    pub restart: usize,
}

#[derive(Clone, Debug, Hash, PartialEq, Eq)]
pub struct Fwd {
    pub msg: Option<u32>,
    pub qos: u8,
    pub pkid: u16,
    pub retain: bool,
    pub dup: bool,
    pub epoch: u32,
    pub topic: String,
    pub props: Option<Props>,
}

#[derive(Clone, Debug, Default, Hash)]
pub struct CModel {
    pub registered: bool,
    pub ever_connected: bool,
    pub clean: bool,
    pub epoch: u32,
    pub conn_id: usize,
    /// harness-side unique id of the current link object
    pub conn_uid: u32,
    pub will: bool,
    pub subs: Vec<SubInst>,
    pub forwards: Vec<Fwd>,
    /// possible attributions of the forwards seen on this connection to subscriptions:
    /// each entry is a vector of positions, one per subscription instance
    pub frontier: Vec<Vec<u32>>,
    pub replies_expected: VecDeque<Rx>,
    pub replies_seen: u32,
    pub q2_recorded: VecDeque<u32>,
    /// QoS>0 forwards pushed by the router and not yet acknowledged (router consumed ack)
    pub outstanding: VecDeque<u16>,
    /// PUBRECs the router consumed whose PUBCOMP it has not consumed yet
    pub rel_outstanding: VecDeque<u16>,
    pub session_present: Option<bool>,
    pub expect_session_present: Option<bool>,
    pub closed_by_model: bool,
    pub disconnect_notices: u32,
    pub had_session: bool,
    pub acked_count: u32,
}

pub struct Model {
    pub prop: String,
    pub variant: u8,
    pub accepted: Vec<Msg>,
    /// QoS2 publishes received and not yet released
    pub held: Vec<Msg>,
    pub by_payload: BTreeMap<Vec<u8>, u32>,
    pub clients: Vec<CModel>,
    pub viols: Vec<(String, String)>,
    pub retained: BTreeMap<String, u32>,
    pub wills: BTreeMap<String, (String, Vec<u8>, u8, bool)>,
    pub notes: Vec<String>,
    pub check_replies: bool,
    pub check_forwards: bool,
    pub check_retained: bool,
    pub strict_close: bool,
    pub wills_fired: Vec<String>,
    /// messages that went through a shared group: msg -> members that received it
    pub outcome_acc: u64,
}

pub fn split_share(filter: &str) -> (Option<String>, String) {
    if let Some(rest) = filter.strip_prefix("$share/") {
        if let Some((g, f)) = rest.split_once('/') {
            return (Some(g.to_string()), f.to_string());
        }
    }
    (None, filter.to_string())
}

impl Model {
    pub fn new(cfg: &Cfg) -> Model {
        let p = cfg.prop.as_str();
        Model {
            prop: cfg.prop.clone(),
            variant: cfg.variant,
            accepted: vec![],
            held: vec![],
            by_payload: BTreeMap::new(),
            clients: (0..cfg.v5.len()).map(|_| CModel::default()).collect(),
            viols: vec![],
            retained: BTreeMap::new(),
            wills: BTreeMap::new(),
            notes: vec![],
            check_replies: matches!(p, "C06" | "C14"),
            check_forwards: matches!(p, "C01" | "C08" | "C09" | "C14" | "C15" | "C16" | "C20"),
            check_retained: matches!(p, "C15" | "C16"),
            strict_close: true,
            wills_fired: vec![],
            outcome_acc: 0,
        }
    }

    pub fn note(&mut self, s: String) {
        if self.notes.len() < 4 {
            self.notes.push(s);
        }
    }

    fn v(&mut self, code: &str, detail: String) {
        self.viols.push((code.to_string(), detail));
    }

    pub fn take_violations(&mut self, prop: &'static str, out: &mut Vec<Violation>) {
        for (c, d) in self.viols.drain(..) {
            out.push(Violation::new(prop, c, d));
        }
    }

    pub fn registered(&self, ci: usize) -> bool {
        self.clients[ci].registered
    }

    // ------------------------------------------------------------ connection life cycle

    pub fn connect_sent(&mut self, ci: usize, clean: bool, will: bool, takeover: bool) {
        if takeover {
            self.end_connection(ci, false);
        }
        let c = &mut self.clients[ci];
        // session present iff a previous session exists and both connects are persistent
        c.expect_session_present = Some(!clean && c.had_session);
        c.clean = clean;
        c.will = will;
    }

    pub fn connected(&mut self, ci: usize, conn_id: usize, uid: u32) {
        self.clients[ci].conn_uid = uid;
        let clean;
        {
            let c = &mut self.clients[ci];
            c.registered = true;
            c.ever_connected = true;
            c.conn_id = conn_id;
            c.epoch += 1;
            c.closed_by_model = false;
            c.replies_expected.clear();
            c.outstanding.clear();
            c.q2_recorded.clear();
            clean = c.clean;
            if clean || !c.had_session {
                c.subs.iter_mut().for_each(|s| s.active = false);
                c.rel_outstanding.clear();
            }
            // attribution starts afresh on every connection
            let n = c.subs.len();
            c.frontier = vec![c.subs.iter().map(|s| s.restart as u32).collect::<Vec<u32>>()];
            debug_assert_eq!(c.frontier[0].len(), n);
        }
        if self.clients[ci].will {
            // registered by the router at connect time; content is checked on delivery
        }
    }

    pub fn register_will(&mut self, ci_name: &str, topic: String, payload: Vec<u8>, qos: u8, retain: bool) {
        self.wills.insert(ci_name.to_string(), (topic, payload, qos, retain));
    }

    pub fn connect_refused(&mut self, ci: usize) {
        self.clients[ci].registered = false;
    }

    /// the connection of `ci` is gone (any cause); `clean_disconnect` = DISCONNECT packet
    fn end_connection(&mut self, ci: usize, _clean_disconnect: bool) {
        let c = &mut self.clients[ci];
        if !c.registered {
            return;
        }
        c.registered = false;
        c.replies_expected.clear();
        c.q2_recorded.clear();
        if c.clean {
            c.subs.iter_mut().for_each(|s| s.active = false);
            c.had_session = false;
            c.outstanding.clear();
            c.rel_outstanding.clear();
        } else {
            c.had_session = true;
            // delivery restarts, per subscription, at the oldest unacknowledged message:
            // computed by the C08 oracle from what was acknowledged (see restart_points)
        }
    }

    pub fn link_lost(&mut self, ci: usize) {
        self.end_connection(ci, false);
    }

    pub fn link_ended_by_router(&mut self, ci: usize) {
        if self.clients[ci].registered && self.strict_close {
            let d = format!(
                "router closed the connection of {} although it sent nothing that warrants it",
                super::NAMES[ci]
            );
            self.v("unexpected_close", d);
        }
        self.end_connection(ci, false);
    }

    pub fn will_event(&mut self, name: &str) {
        if let Some((topic, payload, qos, retain)) = self.wills.remove(name) {
            self.wills_fired.push(name.to_string());
            let from = super::NAMES.iter().position(|n| *n == name).unwrap_or(0);
            self.accept(Msg {
                topic,
                payload,
                from,
                qos,
                retain,
                props: None,
                will: true,
            });
        }
    }

    // ------------------------------------------------------------ consumption mirror

    fn accept(&mut self, m: Msg) {
        let idx = self.accepted.len() as u32;
        // retained bookkeeping (statement: retained + empty clears; retained non-empty replaces)
        if m.retain {
            if m.payload.is_empty() {
                self.retained.remove(&m.topic);
            } else {
                self.retained.insert(m.topic.clone(), idx);
            }
        }
        if !m.payload.is_empty() {
            self.by_payload.insert(m.payload.clone(), idx);
        }
        for c in self.clients.iter_mut() {
            for s in c.subs.iter_mut() {
                if s.active && ref_matches(&m.topic, &s.match_filter) {
                    s.expect.push(idx);
                }
            }
        }
        self.accepted.push(m);
    }

    /// the router consumed packet `tx` from client `ci`
    pub fn consumed(&mut self, ci: usize, tx: &Tx) {
        match tx {
            Tx::Publish {
                topic,
                qos,
                retain,
                pkid,
                payload,
                props,
                ..
            } => {
                let m = Msg {
                    topic: topic.clone(),
                    payload: payload.clone(),
                    from: ci,
                    qos: *qos,
                    retain: *retain,
                    props: props.clone(),
                    will: false,
                };
                match qos {
                    0 => self.accept(m),
                    1 => {
                        self.clients[ci].replies_expected.push_back(Rx::PubAck(*pkid));
                        self.accept(m);
                    }
                    _ => {
                        self.clients[ci].replies_expected.push_back(Rx::PubRec(*pkid));
                        // held until released
                        let idx = self.held.len() as u32;
                        self.held.push(m);
                        self.clients[ci].q2_recorded.push_back(idx);
                    }
                }
            }
            Tx::PubRel(pkid) => match self.clients[ci].q2_recorded.pop_front() {
                Some(h) => {
                    self.clients[ci].replies_expected.push_back(Rx::PubComp(*pkid));
                    let m = self.held[h as usize].clone();
                    self.accept(m);
                }
                None => self.closing(ci, "PUBREL for nothing recorded"),
            },
            Tx::Subscribe { pkid, filters, .. } => {
                let mut codes = vec![];
                for (f, q) in filters {
                    codes.push(*q);
                    self.subscribe(ci, f, *q);
                }
                self.clients[ci].replies_expected.push_back(Rx::SubAck {
                    pkid: *pkid,
                    codes,
                });
            }
            Tx::Unsubscribe { pkid, filters } => {
                for f in filters {
                    for s in self.clients[ci].subs.iter_mut() {
                        if s.active && s.filter == *f {
                            s.active = false;
                        }
                    }
                }
                self.clients[ci]
                    .replies_expected
                    .push_back(Rx::UnsubAck { pkid: *pkid });
            }
            Tx::PingReq => self.clients[ci].replies_expected.push_back(Rx::PingResp),
            Tx::PubAck(id) => {
                let c = &mut self.clients[ci];
                if c.outstanding.front() == Some(id) {
                    c.outstanding.pop_front();
                    self.acked(ci);
                } else {
                    self.closing(ci, "unsolicited PUBACK");
                }
            }
            Tx::PubRec(id) => {
                let c = &mut self.clients[ci];
                if c.outstanding.front() == Some(id) {
                    c.outstanding.pop_front();
                    c.rel_outstanding.push_back(*id);
                    c.replies_expected.push_back(Rx::PubRel(*id));
                    self.acked(ci);
                } else {
                    self.closing(ci, "unsolicited PUBREC");
                }
            }
            Tx::PubComp(id) => {
                let c = &mut self.clients[ci];
                if c.rel_outstanding.front() == Some(id) {
                    c.rel_outstanding.pop_front();
                } else {
                    self.closing(ci, "unsolicited PUBCOMP");
                }
            }
            Tx::Disconnect => {
                let name = super::NAMES[ci].to_string();
                self.wills.remove(&name);
                self.clients[ci].closed_by_model = true;
                self.end_connection(ci, true);
            }
            Tx::Raw(_) => {}
        }
    }

    /// a QoS>0 forward was acknowledged in order: the oldest unacknowledged message of
    /// the subscription it belongs to moves on (used by the C08 restart computation)
    fn acked(&mut self, ci: usize) {
        self.clients[ci].acked_count += 1;
    }

    fn closing(&mut self, ci: usize, _why: &str) {
        self.clients[ci].closed_by_model = true;
        self.end_connection(ci, false);
    }

    fn subscribe(&mut self, ci: usize, f: &str, q: u8) {
        let (group, mf) = split_share(f);
        let epoch = self.clients[ci].epoch;
        if self.clients[ci].subs.iter().any(|s| s.active && s.filter == f) {
            // repeating an existing subscription: nothing new (no retained replay)
            return;
        }
        let mut retained_due = vec![];
        let replay = group.is_none();
        if replay {
            for (t, idx) in self.retained.iter() {
                if ref_matches(t, &mf) {
                    retained_due.push(*idx);
                }
            }
        }
        let c = &mut self.clients[ci];
        c.subs.push(SubInst {
            filter: f.to_string(),
            match_filter: mf,
            group,
            qos: q,
            expect: vec![],
            active: true,
            epoch,
            lagged: false,
            retained_due,
            retained_seen: vec![],
            replay_retained: replay,
            restart: 0,
        });
        for p in c.frontier.iter_mut() {
            p.push(0);
        }
    }

    // ------------------------------------------------------------ observations

    /// the router pushed a QoS>0 forward towards `ci` (seen when the link drains)
    pub fn received(&mut self, ci: usize, rx: &Rx) {
        self.outcome_acc = crate::vcore::fp64(&(self.outcome_acc, ci, rx));
        match rx {
            Rx::ConnAck { session_present, ok } => {
                let c = &mut self.clients[ci];
                c.session_present = Some(*session_present);
                if !*ok {
                    self.v("connack_not_success", format!("{} got a failing CONNACK from the router", super::NAMES[ci]));
                } else if let Some(exp) = self.clients[ci].expect_session_present {
                    if exp != *session_present && matches!(self.prop.as_str(), "C08") {
                        self.v(
                            "session_present",
                            format!("{}: CONNACK session_present={} but expected {}", super::NAMES[ci], session_present, exp),
                        );
                    }
                }
            }
            Rx::Publish {
                topic,
                qos,
                retain,
                dup,
                pkid,
                payload,
                props,
            } => self.forward(ci, topic, *qos, *retain, *dup, *pkid, payload, props),
            Rx::PubAck(_) | Rx::PubRec(_) | Rx::PubComp(_) | Rx::SubAck { .. } | Rx::UnsubAck { .. } | Rx::PingResp | Rx::PubRel(_) => {
                self.reply(ci, rx)
            }
            Rx::Disconnect(_) => self.clients[ci].disconnect_notices += 1,
            Rx::Other(s) => self.v("unexpected_packet_kind", format!("{} received {s}", super::NAMES[ci])),
        }
    }

    fn reply(&mut self, ci: usize, rx: &Rx) {
        if !self.check_replies {
            // keep the queue in step without judging
            let c = &mut self.clients[ci];
            if c.replies_expected.front() == Some(rx) {
                c.replies_expected.pop_front();
            }
            return;
        }
        let c = &mut self.clients[ci];
        c.replies_seen += 1;
        match c.replies_expected.front() {
            Some(e) if e == rx => {
                c.replies_expected.pop_front();
            }
            other => {
                let d = format!(
                    "{} received {:?}; next owed reply is {:?} (queue {:?})",
                    super::NAMES[ci],
                    rx,
                    other,
                    c.replies_expected
                );
                self.v("unexpected_reply", d);
            }
        }
    }

    #[allow(clippy::too_many_arguments)]
    fn forward(&mut self, ci: usize, topic: &str, qos: u8, retain: bool, dup: bool, pkid: u16, payload: &[u8], props: &Option<Props>) {
        let msg = self.by_payload.get(payload).cloned();
        let epoch = self.clients[ci].epoch;
        self.clients[ci].forwards.push(Fwd {
            msg,
            qos,
            pkid,
            retain,
            dup,
            epoch,
            topic: topic.to_string(),
            props: props.clone(),
        });
        // outbound window (C09)
        if qos > 0 {
            let c = &mut self.clients[ci];
            if pkid == 0 {
                self.v("forward_pkid_zero", format!("QoS{qos} forward to {} carries packet id 0", super::NAMES[ci]));
            } else if c.outstanding.contains(&pkid) {
                let d = format!(
                    "forward to {} reuses packet id {pkid} while it is still unacknowledged ({:?})",
                    super::NAMES[ci],
                    c.outstanding
                );
                self.v("forward_pkid_reused", d);
            }
            let c = &mut self.clients[ci];
            c.outstanding.push_back(pkid);
            if c.outstanding.len() > 100 {
                let d = format!("{} has {} QoS>0 publishes awaiting acknowledgement", super::NAMES[ci], c.outstanding.len());
                self.v("window_exceeded", d);
            }
        }
        if !self.check_forwards {
            return;
        }
        let Some(m) = msg else {
            self.v(
                "spurious_forward",
                format!("{} received a publish nobody sent: topic={topic} payload={:?}", super::NAMES[ci], String::from_utf8_lossy(payload)),
            );
            return;
        };
        let orig_topic = self.accepted[m as usize].topic.clone();
        if orig_topic != topic {
            self.v("forward_topic", format!("{} received message {m} with topic {topic:?}, published on {orig_topic:?}", super::NAMES[ci]));
            return;
        }
        if retain {
            // replay of a retained message for a new subscription
            let c = &mut self.clients[ci];
            let mut ok = false;
            for s in c.subs.iter_mut() {
                if s.active && s.replay_retained && s.qos == qos && s.retained_due.contains(&m) && !s.retained_seen.contains(&m) {
                    s.retained_seen.push(m);
                    ok = true;
                    break;
                }
            }
            if !ok {
                let d = format!(
                    "{} received message {m} ({topic}) flagged retained, but no new subscription of it is owed that replay",
                    super::NAMES[ci]
                );
                self.v("retained_flag_unexpected", d);
            }
            return;
        }
        // live forward: must extend some attribution
        let c = &mut self.clients[ci];
        let mut next: Vec<Vec<u32>> = vec![];
        let mut seen: HashSet<Vec<u32>> = HashSet::new();
        for pos in c.frontier.iter() {
            for (j, s) in c.subs.iter().enumerate() {
                if s.group.is_some() || s.qos != qos {
                    continue;
                }
                let p = pos[j] as usize;
                if s.expect.get(p) == Some(&m) {
                    let mut n = pos.clone();
                    n[j] += 1;
                    if seen.insert(n.clone()) {
                        next.push(n);
                    }
                }
            }
        }
        if next.is_empty() {
            // C17 handles forwards through shared groups with its own oracle
            if c.subs.iter().any(|s| s.group.is_some() && s.active && ref_matches(topic, &s.match_filter)) {
                return;
            }
            let subs: Vec<String> = c
                .subs
                .iter()
                .enumerate()
                .map(|(j, s)| {
                    format!(
                        "[{} q{} active={} next_owed={:?}]",
                        s.filter,
                        s.qos,
                        s.active,
                        c.frontier.first().and_then(|p| s.expect.get(p[j] as usize))
                    )
                })
                .collect();
            let d = format!(
                "{} received message {m} (topic {topic}, qos {qos}) which is not the next owed message of any of its subscriptions {}",
                super::NAMES[ci],
                subs.join(" ")
            );
            self.v("unexpected_forward", d);
            return;
        }
        if next.len() > 64 {
            next.truncate(64);
        }
        c.frontier = next;
    }

    // ------------------------------------------------------------ closure-time oracles

    /// everything owed has arrived (called at quiescence after in-order acknowledgement)
    pub fn check_complete(&self, out: &mut Vec<(String, String)>) {
        for (ci, c) in self.clients.iter().enumerate() {
            if !c.registered {
                continue;
            }
            if self.check_replies && !c.replies_expected.is_empty() {
                out.push((
                    "missing_reply".into(),
                    format!("{} is still owed {:?} after the broker went idle", super::NAMES[ci], c.replies_expected),
                ));
            }
            if self.check_forwards {
                let complete = c.frontier.iter().any(|pos| {
                    c.subs.iter().enumerate().all(|(j, s)| {
                        !s.active || s.group.is_some() || s.lagged || pos[j] as usize == s.expect.len()
                    })
                });
                if !complete {
                    let missing: Vec<String> = c
                        .subs
                        .iter()
                        .enumerate()
                        .filter(|(_, s)| s.active && s.group.is_none())
                        .map(|(j, s)| {
                            let got = c.frontier.iter().map(|p| p[j]).max().unwrap_or(0);
                            format!("{}: {}/{} delivered", s.filter, got, s.expect.len())
                        })
                        .collect();
                    out.push((
                        "undelivered".into(),
                        format!("{} idle broker, all acknowledged, but not everything arrived: {}", super::NAMES[ci], missing.join(", ")),
                    ));
                }
            }
            if self.check_retained {
                for s in c.subs.iter() {
                    if s.active && s.replay_retained {
                        let mut due = s.retained_due.clone();
                        due.sort();
                        let mut seen = s.retained_seen.clone();
                        seen.sort();
                        if due != seen && due.len() <= 100 {
                            out.push((
                                "retained_replay".into(),
                                format!(
                                    "{} subscribed {}: retained messages owed {:?}, replayed {:?}",
                                    super::NAMES[ci],
                                    s.filter,
                                    due.iter().map(|i| self.accepted[*i as usize].topic.clone()).collect::<Vec<_>>(),
                                    seen.iter().map(|i| self.accepted[*i as usize].topic.clone()).collect::<Vec<_>>()
                                ),
                            ));
                        }
                    }
                }
            }
        }
    }

    pub fn hash_state<H: Hasher>(&self, h: &mut H) {
        self.accepted.hash(h);
        self.held.len().hash(h);
        for c in self.clients.iter() {
            c.hash(h);
        }
        self.retained.hash(h);
        self.wills.hash(h);
        self.wills_fired.hash(h);
    }

    pub fn outcome(&self) -> u64 {
        self.outcome_acc
    }

    pub fn describe(&self) -> String {
        let mut s = format!("accepted={} ", self.accepted.len());
        for (i, c) in self.clients.iter().enumerate() {
            if c.ever_connected {
                s += &format!(
                    "[{} reg={} fw={} owed={:?} out={:?}] ",
                    super::NAMES[i],
                    c.registered,
                    c.forwards.len(),
                    c.replies_expected,
                    c.outstanding
                );
            }
        }
        s
    }
}
