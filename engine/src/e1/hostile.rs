//! Hostile / malformed / batched input and raw router events (C03, C06, C09, C14).
use super::{Cfg, RouterWorld};

pub fn bad(_w: &mut RouterWorld, _cfg: &Cfg, _ci: usize, _kind: u8) {}
pub fn batch(_w: &mut RouterWorld, _cfg: &Cfg, _ci: usize, _kind: u8) {}
pub fn raw(_w: &mut RouterWorld, _cfg: &Cfg, _id: usize, _kind: u8) {}
