//! Hostile / malformed / batched input and raw router events (C03, C06, C09, C14, C16).
use super::props::{make_publish, next_pkid};
use super::{Cfg, ChanEv, RouterWorld};
use crate::wire::{Props, Tx};
use rumqttd::verif::{Event, ShadowRequest};

pub const BAD_KINDS: u8 = 21;

fn raw_publish_nonutf8() -> Vec<u8> {
    // PUBLISH QoS0, topic = [0xff, 0xfe], payload "x"
    vec![0x30, 0x05, 0x00, 0x02, 0xff, 0xfe, b'x']
}

/// `kind` selects one hostile behaviour; those that make a conforming broker close the
/// connection are followed by the harness-only `CloseMark`.
pub fn bad(w: &mut RouterWorld, cfg: &Cfg, ci: usize, kind: u8) {
    let v5 = w.clients[ci].v5;
    let txs: Vec<Tx> = match kind {
        0 => vec![Tx::PubAck(999)],
        1 => vec![Tx::PubRec(999)],
        2 => vec![Tx::PubComp(999)],
        3 => vec![Tx::PubRel(999)],
        4 => {
            // acknowledge the second oldest forward first
            if w.clients[ci].unacked.len() >= 2 {
                let (pkid, q) = w.clients[ci].unacked[1];
                vec![if q == 1 { Tx::PubAck(pkid) } else { Tx::PubRec(pkid) }]
            } else {
                vec![Tx::PubAck(998)]
            }
        }
        5 => {
            let pkid = next_pkid(w, ci);
            vec![Tx::Subscribe { pkid, filters: vec![("$SYS/x".into(), 0)], sub_id: None }, Tx::CloseMark]
        }
        6 => vec![Tx::Raw(raw_publish_nonutf8()), Tx::CloseMark],
        7 => {
            // empty topic, QoS0 (v4 only; in v5 an empty topic needs an alias)
            if v5 {
                vec![Tx::PingReq]
            } else {
                vec![Tx::Publish { topic: String::new(), qos: 0, retain: false, dup: false, pkid: 0, payload: b"e".to_vec(), props: None }]
            }
        }
        8 => vec![Tx::Publish { topic: "$x/y".into(), qos: 0, retain: false, dup: false, pkid: 0, payload: b"d".to_vec(), props: None }],
        9 => {
            // v5: topic alias 0 is invalid
            if v5 {
                let p = Props { alias: Some(0), ..Default::default() };
                vec![Tx::Publish { topic: "a/b".into(), qos: 0, retain: false, dup: false, pkid: 0, payload: b"a0".to_vec(), props: Some(p) }, Tx::CloseMark]
            } else {
                vec![Tx::PingReq]
            }
        }
        10 => {
            // v5: unmapped alias with empty topic
            if v5 {
                let p = Props { alias: Some(7), ..Default::default() };
                vec![Tx::Publish { topic: String::new(), qos: 0, retain: false, dup: false, pkid: 0, payload: b"a7".to_vec(), props: Some(p) }, Tx::CloseMark]
            } else {
                vec![Tx::PingReq]
            }
        }
        11 => {
            // v5: alias above the broker's maximum
            if v5 {
                let p = Props { alias: Some(5000), ..Default::default() };
                vec![Tx::Publish { topic: "a/b".into(), qos: 0, retain: false, dup: false, pkid: 0, payload: b"a5k".to_vec(), props: Some(p) }, Tx::CloseMark]
            } else {
                vec![Tx::PingReq]
            }
        }
        12 => {
            // v5: a client must not send a subscription identifier in PUBLISH
            if v5 {
                let p = Props { sub_ids: vec![3], ..Default::default() };
                vec![Tx::Publish { topic: "a/b".into(), qos: 0, retain: false, dup: false, pkid: 0, payload: b"sid".to_vec(), props: Some(p) }, Tx::CloseMark]
            } else {
                vec![Tx::PingReq]
            }
        }
        13 => {
            let pkid = next_pkid(w, ci);
            vec![Tx::Subscribe { pkid, filters: vec![("$share/g".into(), 1)], sub_id: None }]
        }
        14 => {
            // server-to-client packets sent by a client: CONNACK, SUBACK, PINGRESP
            vec![Tx::Raw(vec![0x20, 0x02, 0x00, 0x00]), Tx::Raw(vec![0x90, 0x03, 0x00, 0x01, 0x00]), Tx::Raw(vec![0xd0, 0x00])]
        }
        15 => {
            // a second CONNECT in mid-session (v4 frame)
            let mut b = bytes::BytesMut::new();
            let c = rumqttc::mqttbytes::v4::Connect::new("again");
            let _ = rumqttc::mqttbytes::v4::Packet::Connect(c).write(&mut b, usize::MAX);
            if v5 {
                vec![Tx::PingReq]
            } else {
                vec![Tx::Raw(b.to_vec())]
            }
        }
        17 => {
            // v5: subscription identifier 0 is a protocol error
            let pkid = next_pkid(w, ci);
            if v5 {
                vec![Tx::Subscribe { pkid, filters: vec![("a/b".into(), 1)], sub_id: Some(0) }, Tx::CloseMark]
            } else {
                vec![Tx::PingReq]
            }
        }
        18 => {
            // the second filter of one SUBSCRIBE is refused: the first is already prepared
            let pkid = next_pkid(w, ci);
            vec![Tx::Subscribe { pkid, filters: vec![("a/b".into(), 1), ("$SYS/x".into(), 0)], sub_id: None }, Tx::CloseMark]
        }
        19 => {
            // v5: invalid alias on a QoS 2 publish (checked when the publish is received)
            if v5 {
                let pkid = next_pkid(w, ci);
                let p = Props { alias: Some(0), ..Default::default() };
                vec![Tx::Publish { topic: "a/b".into(), qos: 2, retain: false, dup: false, pkid, payload: b"q2a0".to_vec(), props: Some(p) }, Tx::CloseMark]
            } else {
                vec![Tx::PingReq]
            }
        }
        20 => {
            // the wrong kind of acknowledgement for the oldest forward: PUBREC for a QoS 1
            // forward, PUBACK for a QoS 2 one (this broker takes either as "acknowledged")
            match w.clients[ci].unacked.pop_front() {
                Some((pkid, q)) => vec![if q == 1 { Tx::PubRec(pkid) } else { Tx::PubAck(pkid) }, Tx::MayClose],
                None => vec![Tx::PingReq],
            }
        }
        _ => {
            // frame the broker's decoder rejects (reserved packet type 0): the link ends
            vec![Tx::Raw(vec![0x00, 0x00])]
        }
    };
    let _ = cfg;
    // What this broker does with the packet (markers above) is one of the outcomes the
    // statements allow for a misbehaving client; the model keeps the others open too.
    let mut txs = txs;
    let real = txs != vec![Tx::PingReq];
    if real {
        match kind {
            // closes here; processing the packet, or refusing it and going on, is not ruled out
            5 | 9 | 10 | 11 | 12 | 17 | 18 | 19 => txs.insert(0, Tx::Doubt),
            // goes on here; refusing the packet, or closing, is not ruled out
            7 | 8 | 13 => {
                txs.insert(0, Tx::Doubt);
                txs.push(Tx::MayClose);
            }
            14 | 15 => txs.push(Tx::MayClose),
            _ => {}
        }
    }
    w.send(ci, txs);
}

pub const BATCH_KINDS: u8 = 10;

pub fn batch(w: &mut RouterWorld, cfg: &Cfg, ci: usize, kind: u8) {
    let f0 = cfg.filters.first().cloned().unwrap_or_else(|| "a/b".into());
    let f1 = cfg.filters.get(1).cloned().unwrap_or_else(|| "a/+".into());
    let txs = match kind {
        0 => {
            let p = make_publish(w, cfg, ci, 0, 1, false, false, 0);
            let pkid = next_pkid(w, ci);
            vec![p, Tx::Subscribe { pkid, filters: vec![(f0, 1)], sub_id: None }, Tx::PingReq]
        }
        1 => {
            let p = make_publish(w, cfg, ci, 0, 2, false, false, 0);
            let pkid = next_pkid(w, ci);
            vec![Tx::PingReq, p, Tx::Unsubscribe { pkid, filters: vec![f0] }]
        }
        2 => {
            // a release for nothing recorded closes the connection; what follows is dropped
            let pkid = next_pkid(w, ci);
            vec![Tx::PubRel(777), Tx::Subscribe { pkid, filters: vec![(f1, 0)], sub_id: None }, Tx::PingReq]
        }
        3 => {
            let p = make_publish(w, cfg, ci, 0, 1, false, false, 0);
            vec![Tx::Disconnect, Tx::PingReq, p]
        }
        4 => {
            let a = make_publish(w, cfg, ci, 0, 1, false, false, 0);
            let b = make_publish(w, cfg, ci, 0, 2, false, false, 0);
            let c = make_publish(w, cfg, ci, 0, 1, false, false, 0);
            vec![a, b, c]
        }
        5 => {
            // a subscriber publishes on its own subscription and unsubscribes in the same batch
            let a = make_publish(w, cfg, ci, 0, 1, false, false, 0);
            let pkid = next_pkid(w, ci);
            vec![a, Tx::Unsubscribe { pkid, filters: vec![f0] }]
        }
        6 => {
            // a publish followed, in the same batch, by an unsolicited acknowledgement
            let a = make_publish(w, cfg, ci, 0, 0, false, false, 0);
            vec![a, Tx::PubAck(999)]
        }
        7 => {
            let a = make_publish(w, cfg, ci, 0, 1, false, false, 0);
            vec![a, Tx::Disconnect]
        }
        8 => {
            // the connection is closed for the unsolicited ack: the DISCONNECT behind it is
            // never looked at (a registered will has to fire)
            vec![Tx::PubAck(999), Tx::Disconnect]
        }
        _ => {
            let pkid = next_pkid(w, ci);
            let pkid2 = next_pkid(w, ci);
            vec![
                Tx::Subscribe { pkid, filters: vec![(f0.clone(), 1), (f1, 2)], sub_id: None },
                Tx::PingReq,
                Tx::Unsubscribe { pkid: pkid2, filters: vec![f0] },
            ]
        }
    };
    w.send(ci, txs);
}

pub const PAIR_KINDS: u8 = 6;

/// two well-formed request packets in one batch: 0..2 PUBLISH QoS 0/1/2 on topic 0,
/// 3 PINGREQ, 4 SUBSCRIBE filter 0 (QoS 1), 5 UNSUBSCRIBE filter 0
pub fn pair(w: &mut RouterWorld, cfg: &Cfg, ci: usize, a: u8, b: u8) {
    let f0 = cfg.filters.first().cloned().unwrap_or_else(|| "a/b".into());
    let mut txs = vec![];
    for k in [a, b] {
        let tx = match k {
            0..=2 => make_publish(w, cfg, ci, 0, k, false, false, 0),
            3 => Tx::PingReq,
            4 => {
                let pkid = next_pkid(w, ci);
                Tx::Subscribe { pkid, filters: vec![(f0.clone(), 1)], sub_id: None }
            }
            _ => {
                let pkid = next_pkid(w, ci);
                Tx::Unsubscribe { pkid, filters: vec![f0.clone()] }
            }
        };
        txs.push(tx);
    }
    w.send(ci, txs);
}

pub const RAW_KINDS: u8 = 8;

/// raw event for a connection id that no live link of the harness owns
pub fn raw(w: &mut RouterWorld, _cfg: &Cfg, id: usize, kind: u8) {
    let ev = match kind {
        0 => Event::DeviceData,
        1 => Event::Ready,
        2 => Event::Disconnect,
        3 => Event::PublishWill(("c0".to_string(), None)),
        4 => Event::PublishWill(("nobody".to_string(), None)),
        5 => Event::SendMeters,
        6 => Event::SendAlerts,
        _ => Event::Shadow(ShadowRequest { filter: "a/b".to_string() }),
    };
    let mirror = match kind {
        3 => ChanEv::Will("c0".to_string()),
        _ => ChanEv::RawOther,
    };
    w.send_event(id, ev, mirror);
}
