//! Abstract packets at the edges of the router world. Packets enter the broker as bytes
//! produced by the *client library's* encoder and decoded by the *broker's* decoder;
//! notifications leave through the broker's encoder and are decoded by the client's
//! decoder. What a client "received" is what the client library decodes.
use bytes::{Bytes, BytesMut};
use rumqttc::mqttbytes as c4b;
use rumqttc::mqttbytes::v4 as c4;
use rumqttc::v5::mqttbytes as c5b;
use rumqttc::v5::mqttbytes::v5 as c5;
use rumqttd::protocol::{self as bp, Protocol};
use rumqttd::Notification;
use serde::{Deserialize, Serialize};

#[derive(Clone, Debug, Default, PartialEq, Eq, Hash, PartialOrd, Ord, Serialize, Deserialize)]
pub struct Props {
    pub pfi: Option<u8>,
    pub expiry: Option<u32>,
    pub alias: Option<u16>,
    pub response_topic: Option<String>,
    pub correlation: Option<Vec<u8>>,
    pub user: Vec<(String, String)>,
    pub sub_ids: Vec<usize>,
    pub content_type: Option<String>,
}

impl Props {
    /// without the per-hop properties (topic alias, subscription identifiers)
    pub fn end_to_end(&self) -> Props {
        Props {
            alias: None,
            sub_ids: vec![],
            ..self.clone()
        }
    }
    pub fn is_empty(&self) -> bool {
        *self == Props::default()
    }
}

/// client -> broker
#[derive(Clone, Debug, PartialEq, Eq, Hash, PartialOrd, Ord, Serialize, Deserialize)]
pub enum Tx {
    Publish {
        topic: String,
        qos: u8,
        retain: bool,
        dup: bool,
        pkid: u16,
        payload: Vec<u8>,
        props: Option<Props>,
    },
    PubAck(u16),
    PubRec(u16),
    PubRel(u16),
    /// PUBREL that carries MQTT 5 properties (a reason string); plain PUBREL in 3.1.1
    PubRelProps(u16),
    PubComp(u16),
    Subscribe {
        pkid: u16,
        filters: Vec<(String, u8)>,
        sub_id: Option<usize>,
    },
    Unsubscribe {
        pkid: u16,
        filters: Vec<String>,
    },
    PingReq,
    Disconnect,
    /// raw frame handed to the broker decoder as is
    Raw(Vec<u8>),
    /// harness-only marker (never encoded): the packet before it makes the broker close
    /// the connection, whatever follows in the same batch is ignored
    CloseMark,
    /// harness-only marker: the packet before it does not make this broker close the
    /// connection, but no statement forbids a broker to close for it
    MayClose,
    /// harness-only marker: the next packet is one a broker may refuse to process
    Doubt,
}

impl Tx {
    pub fn is_marker(&self) -> bool {
        matches!(self, Tx::CloseMark | Tx::MayClose | Tx::Doubt)
    }
}

/// broker -> client, as decoded by the client library
#[derive(Clone, Debug, PartialEq, Eq, Hash, PartialOrd, Ord, Serialize, Deserialize)]
pub enum Rx {
    ConnAck {
        session_present: bool,
        ok: bool,
    },
    Publish {
        topic: String,
        qos: u8,
        retain: bool,
        dup: bool,
        pkid: u16,
        payload: Vec<u8>,
        props: Option<Props>,
    },
    PubAck(u16),
    PubRec(u16),
    PubRel(u16),
    PubComp(u16),
    SubAck {
        pkid: u16,
        codes: Vec<u8>,
    },
    UnsubAck {
        pkid: u16,
    },
    PingResp,
    Disconnect(String),
    /// something that is not a packet a broker sends
    Other(String),
}

fn q4(q: u8) -> c4b::QoS {
    match q {
        0 => c4b::QoS::AtMostOnce,
        1 => c4b::QoS::AtLeastOnce,
        _ => c4b::QoS::ExactlyOnce,
    }
}

fn q5(q: u8) -> c5b::QoS {
    match q {
        0 => c5b::QoS::AtMostOnce,
        1 => c5b::QoS::AtLeastOnce,
        _ => c5b::QoS::ExactlyOnce,
    }
}

fn props_to_c5(p: &Props) -> c5::PublishProperties {
    c5::PublishProperties {
        payload_format_indicator: p.pfi,
        message_expiry_interval: p.expiry,
        topic_alias: p.alias,
        response_topic: p.response_topic.clone(),
        correlation_data: p.correlation.clone().map(Bytes::from),
        user_properties: p.user.clone(),
        subscription_identifiers: p.sub_ids.clone(),
        content_type: p.content_type.clone(),
    }
}

fn props_from_c5(p: &c5::PublishProperties) -> Props {
    Props {
        pfi: p.payload_format_indicator,
        expiry: p.message_expiry_interval,
        alias: p.topic_alias,
        response_topic: p.response_topic.clone(),
        correlation: p.correlation_data.as_ref().map(|b| b.to_vec()),
        user: p.user_properties.clone(),
        sub_ids: p.subscription_identifiers.clone(),
        content_type: p.content_type.clone(),
    }
}

/// Encode with the client library (protocol version of the connection).
pub fn tx_bytes(tx: &Tx, v5: bool) -> Result<BytesMut, String> {
    let mut buf = BytesMut::new();
    if let Tx::Raw(b) = tx {
        buf.extend_from_slice(b);
        return Ok(buf);
    }
    if tx.is_marker() {
        return Err("marker".into());
    }
    if !v5 {
        let p = match tx {
            Tx::Publish {
                topic,
                qos,
                retain,
                dup,
                pkid,
                payload,
                ..
            } => {
                let mut p = c4::Publish::new(topic.clone(), q4(*qos), payload.clone());
                p.retain = *retain;
                p.dup = *dup;
                p.pkid = *pkid;
                c4::Packet::Publish(p)
            }
            Tx::PubAck(id) => c4::Packet::PubAck(c4::PubAck::new(*id)),
            Tx::PubRec(id) => c4::Packet::PubRec(c4::PubRec::new(*id)),
            Tx::PubRel(id) | Tx::PubRelProps(id) => c4::Packet::PubRel(c4::PubRel::new(*id)),
            Tx::PubComp(id) => c4::Packet::PubComp(c4::PubComp::new(*id)),
            Tx::Subscribe { pkid, filters, .. } => {
                let mut s = c4::Subscribe::new_many(
                    filters
                        .iter()
                        .map(|(f, q)| c4::SubscribeFilter::new(f.clone(), q4(*q))),
                );
                s.pkid = *pkid;
                c4::Packet::Subscribe(s)
            }
            Tx::Unsubscribe { pkid, filters } => {
                let mut u = c4::Unsubscribe::new(filters[0].clone());
                u.topics = filters.clone();
                u.pkid = *pkid;
                c4::Packet::Unsubscribe(u)
            }
            Tx::PingReq => c4::Packet::PingReq,
            Tx::Disconnect => c4::Packet::Disconnect,
            Tx::Raw(_) | Tx::CloseMark | Tx::MayClose | Tx::Doubt => unreachable!(),
        };
        p.write(&mut buf, usize::MAX).map_err(|e| format!("{e:?}"))?;
    } else {
        let p = match tx {
            Tx::Publish {
                topic,
                qos,
                retain,
                dup,
                pkid,
                payload,
                props,
            } => {
                let mut p = c5::Publish::new(
                    topic.clone(),
                    q5(*qos),
                    payload.clone(),
                    props.as_ref().map(props_to_c5),
                );
                p.retain = *retain;
                p.dup = *dup;
                p.pkid = *pkid;
                c5::Packet::Publish(p)
            }
            Tx::PubAck(id) => c5::Packet::PubAck(c5::PubAck::new(*id, None)),
            Tx::PubRec(id) => c5::Packet::PubRec(c5::PubRec::new(*id, None)),
            Tx::PubRel(id) => c5::Packet::PubRel(c5::PubRel::new(*id, None)),
            Tx::PubRelProps(id) => c5::Packet::PubRel(c5::PubRel::new(
                *id,
                Some(c5::PubRelProperties { reason_string: Some("released".into()), user_properties: vec![] }),
            )),
            Tx::PubComp(id) => c5::Packet::PubComp(c5::PubComp::new(*id, None)),
            Tx::Subscribe {
                pkid,
                filters,
                sub_id,
            } => {
                let fs: Vec<c5::Filter> = filters
                    .iter()
                    .map(|(f, q)| c5::Filter::new(f.clone(), q5(*q)))
                    .collect();
                let props = sub_id.map(|id| c5::SubscribeProperties {
                    id: Some(id),
                    user_properties: vec![],
                });
                let mut s = c5::Subscribe::new_many(fs, props);
                s.pkid = *pkid;
                c5::Packet::Subscribe(s)
            }
            Tx::Unsubscribe { pkid, filters } => {
                let mut u = c5::Unsubscribe::new(filters[0].clone(), None);
                u.filters = filters.clone();
                u.pkid = *pkid;
                c5::Packet::Unsubscribe(u)
            }
            Tx::PingReq => c5::Packet::PingReq(c5::PingReq),
            Tx::Disconnect => c5::Packet::Disconnect(c5::Disconnect::new(
                c5::DisconnectReasonCode::NormalDisconnection,
            )),
            Tx::Raw(_) | Tx::CloseMark | Tx::MayClose | Tx::Doubt => unreachable!(),
        };
        p.write(&mut buf, None).map_err(|e| format!("{e:?}"))?;
    }
    Ok(buf)
}

/// Decode a frame with the broker's decoder of that protocol version.
pub fn broker_decode(buf: &mut BytesMut, v5: bool) -> Result<bp::Packet, bp::Error> {
    if v5 {
        bp::v5::V5.read_mut(buf, 1 << 28)
    } else {
        bp::v4::V4.read_mut(buf, 1 << 28)
    }
}

/// client encoder -> broker decoder
pub fn tx_to_broker(tx: &Tx, v5: bool) -> Result<bp::Packet, String> {
    let mut buf = tx_bytes(tx, v5)?;
    match crate::vcore::catch(|| broker_decode(&mut buf, v5)) {
        Ok(r) => r.map_err(|e| format!("broker decoder: {e:?}")),
        // decoder totality is property C05's business; here the connection task just dies
        Err(p) => Err(format!("broker decoder panicked: {p}")),
    }
}

pub enum Out {
    Packet(Rx),
    Unschedule,
    /// the broker could not encode the notification for this protocol
    EncodeError(String),
    EncodePanic(String),
    /// the client library could not decode what the broker wrote
    ClientDecodeError(String),
    /// notification kinds a remote link ignores (shadow, replica)
    Ignored,
}

fn rx_from_c4(p: c4::Packet) -> Rx {
    match p {
        c4::Packet::ConnAck(a) => Rx::ConnAck {
            session_present: a.session_present,
            ok: a.code == c4::ConnectReturnCode::Success,
        },
        c4::Packet::Publish(p) => Rx::Publish {
            topic: String::from_utf8_lossy(p.topic.as_bytes()).to_string(),
            qos: p.qos as u8,
            retain: p.retain,
            dup: p.dup,
            pkid: p.pkid,
            payload: p.payload.to_vec(),
            props: None,
        },
        c4::Packet::PubAck(a) => Rx::PubAck(a.pkid),
        c4::Packet::PubRec(a) => Rx::PubRec(a.pkid),
        c4::Packet::PubRel(a) => Rx::PubRel(a.pkid),
        c4::Packet::PubComp(a) => Rx::PubComp(a.pkid),
        c4::Packet::SubAck(a) => Rx::SubAck {
            pkid: a.pkid,
            codes: a
                .return_codes
                .iter()
                .map(|c| match c {
                    c4::SubscribeReasonCode::Success(q) => *q as u8,
                    c4::SubscribeReasonCode::Failure => 0x80,
                })
                .collect(),
        },
        c4::Packet::UnsubAck(a) => Rx::UnsubAck { pkid: a.pkid },
        c4::Packet::PingResp => Rx::PingResp,
        c4::Packet::Disconnect => Rx::Disconnect("v4".into()),
        other => Rx::Other(format!("{other:?}")),
    }
}

fn rx_from_c5(p: c5::Packet) -> Rx {
    match p {
        c5::Packet::ConnAck(a) => Rx::ConnAck {
            session_present: a.session_present,
            ok: a.code == c5::ConnectReturnCode::Success,
        },
        c5::Packet::Publish(p) => Rx::Publish {
            topic: String::from_utf8_lossy(&p.topic).to_string(),
            qos: p.qos as u8,
            retain: p.retain,
            dup: p.dup,
            pkid: p.pkid,
            payload: p.payload.to_vec(),
            props: p.properties.as_ref().map(props_from_c5),
        },
        c5::Packet::PubAck(a) => Rx::PubAck(a.pkid),
        c5::Packet::PubRec(a) => Rx::PubRec(a.pkid),
        c5::Packet::PubRel(a) => Rx::PubRel(a.pkid),
        c5::Packet::PubComp(a) => Rx::PubComp(a.pkid),
        c5::Packet::SubAck(a) => Rx::SubAck {
            pkid: a.pkid,
            codes: a
                .return_codes
                .iter()
                .map(|c| match c {
                    c5::SubscribeReasonCode::Success(q) => *q as u8,
                    _ => 0x80,
                })
                .collect(),
        },
        c5::Packet::UnsubAck(a) => Rx::UnsubAck { pkid: a.pkid },
        c5::Packet::PingResp(_) => Rx::PingResp,
        c5::Packet::Disconnect(d) => Rx::Disconnect(format!("{:?}", d.reason_code)),
        other => Rx::Other(format!("{other:?}")),
    }
}

/// Decode one frame from the front of `buf` with the client library of that version;
/// `Ok(None)` when the frame is not complete yet.
pub fn client_decode_one(buf: &mut BytesMut, v5: bool) -> Result<Option<Rx>, String> {
    if buf.is_empty() {
        return Ok(None);
    }
    if v5 {
        match c5::Packet::read(buf, None) {
            Ok(p) => Ok(Some(rx_from_c5(p))),
            Err(c5b::Error::InsufficientBytes(_)) => Ok(None),
            Err(e) => Err(format!("{e:?}")),
        }
    } else {
        match c4::Packet::read(buf, usize::MAX) {
            Ok(p) => Ok(Some(rx_from_c4(p))),
            Err(c4b::Error::InsufficientBytes(_)) => Ok(None),
            Err(e) => Err(format!("{e:?}")),
        }
    }
}

/// Decode every frame in `buf` with the client library of that version.
pub fn client_decode_all(buf: &mut BytesMut, v5: bool) -> Result<Vec<Rx>, String> {
    let mut out = vec![];
    while !buf.is_empty() {
        if v5 {
            match c5::Packet::read(buf, None) {
                Ok(p) => out.push(rx_from_c5(p)),
                Err(e) => return Err(format!("{e:?}")),
            }
        } else {
            match c4::Packet::read(buf, usize::MAX) {
                Ok(p) => out.push(rx_from_c4(p)),
                Err(e) => return Err(format!("{e:?}")),
            }
        }
    }
    Ok(out)
}

/// broker notification -> (broker encoder) -> bytes -> (client decoder)
pub fn notification_out(n: Notification, v5: bool) -> Out {
    match &n {
        Notification::Unschedule => return Out::Unschedule,
        Notification::Forward(_) | Notification::DeviceAck(_) | Notification::Disconnect(..) => {}
        _ => return Out::Ignored,
    }
    let packet: Option<bp::Packet> = n.into();
    let Some(packet) = packet else {
        return Out::Ignored;
    };
    let mut buf = BytesMut::new();
    let dbg = format!("{packet:?}");
    let r = crate::vcore::catch(|| {
        if v5 {
            bp::v5::V5.write(packet, &mut buf)
        } else {
            bp::v4::V4.write(packet, &mut buf)
        }
    });
    match r {
        Err(p) => Out::EncodePanic(format!("{p} while encoding {dbg}")),
        Ok(Err(e)) => Out::EncodeError(format!("{e:?} while encoding {dbg}")),
        Ok(Ok(_)) => match client_decode_all(&mut buf, v5) {
            Ok(mut v) if v.len() == 1 => Out::Packet(v.pop().unwrap()),
            Ok(v) => Out::ClientDecodeError(format!("{} packets decoded from one notification {dbg}", v.len())),
            Err(e) => Out::ClientDecodeError(format!("{e} for {dbg}")),
        },
    }
}
