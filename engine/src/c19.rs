//! C19: admission matrix through the real connection task (E6) plus connect / disconnect /
//! takeover histories against small connection limits on the stepped router (E1).
use crate::e6_fullstack as e6;
use crate::vcore::evidence::Evidence;
use crate::vcore::findings::Reporter;
use crate::vcore::Tier;
use rayon::prelude::*;
use serde_json::json;

pub fn run(tier: Tier) -> i32 {
    let reporter = Reporter::new("C19");
    let mut ev = Evidence::new("C19", tier);
    // life-cycle conformance first: it also tells whether E6 itself works here
    let conf = e6::conformance();
    let conformant = conf.iter().filter(|c| c.0).count();
    for (ok, d) in conf.iter() {
        if !ok {
            println!("note: link life-cycle model differs from the code: {d}");
        }
    }
    let cases = e6::cases(tier == Tier::Thorough);
    let results: Vec<(usize, bool, bool)> = cases
        .par_iter()
        .enumerate()
        .map(|(i, c)| {
            let o = e6::run_scenario(&c.sc);
            let viols = e6::judge(c, &o);
            for v in viols.iter() {
                reporter.report(v, || json!({"engine": "e6_fullstack", "case": c}));
            }
            (i, e6::expected_admitted(c), !o.registered.is_empty())
        })
        .collect();
    let admitted = results.iter().filter(|r| r.1).count();
    ev.states += cases.len() as u64;
    ev.transitions += cases.len() as u64;
    ev.traces_validated += cases.len() as u64 + conf.len() as u64;
    ev.set("admission_cases", json!(cases.len()));
    ev.set("admission_cases_expected_admitted", json!(admitted));
    ev.set("admission_cases_registered", json!(results.iter().filter(|r| r.2).count()));
    ev.set("lifecycle_conformance", json!({"endings_run": conf.len(), "conformant": conformant, "details": conf.iter().map(|c| c.1.clone()).collect::<Vec<_>>()}));
    ev.sample(json!({"admission_case": cases[cases.len() / 2]}));
    if admitted < 2 || admitted == cases.len() {
        crate::vcore::machinery_error("C19: vacuous admission matrix");
    }
    // router part
    crate::e1::run::explore_plans("C19", tier, &reporter, &mut ev, 0.5);
    ev.assumptions.push("admission runs the real remote() task over an in-memory duplex stream with the real router stepped one event at a time by the harness thread; TCP/TLS acceptors are outside".into());
    ev.violations = reporter.new_violations();
    let code = reporter.finish();
    ev.write();
    println!("C19 {}: admission cases={} (expected admitted {}), lifecycle endings conformant {}/{}", tier.name(), cases.len(), admitted, conformant, conf.len());
    code
}

pub fn replay(v: &serde_json::Value) -> i32 {
    let c: e6::Case = serde_json::from_value(v["case"].clone()).unwrap();
    let mut last = None;
    for _ in 0..2 {
        let o = e6::run_scenario(&c.sc);
        println!("events={:?} registered={:?} written={:02x?} finished={}", o.events, o.registered, &o.written[..o.written.len().min(16)], o.task_finished);
        if let Some(prev) = &last {
            if *prev != o {
                crate::vcore::machinery_error("E6 replay is not deterministic");
            }
        }
        last = Some(o);
    }
    let viols = e6::judge(&c, last.as_ref().unwrap());
    for v in viols.iter() {
        println!("  !! {} {}: {}", v.property, v.code, v.detail);
    }
    println!("expected admitted: {}", e6::expected_admitted(&c));
    if viols.is_empty() {
        println!("replay: no violation");
        0
    } else {
        println!("replay: {} violation(s) reproduced", viols.len());
        1
    }
}
