//! C19: admission matrix through the real connection task (E6) plus connect / disconnect /
//! takeover histories against small connection limits on the stepped router (E1).
use crate::e6_fullstack as e6;
use crate::vcore::evidence::Evidence;
use crate::vcore::findings::Reporter;
use crate::vcore::Tier;
use rayon::prelude::*;
use serde_json::json;

pub fn run(tier: Tier) -> i32 {
    let reporter = Reporter::new("C19");
    let mut ev = Evidence::new("C19", tier);
    // life-cycle conformance first: it also tells whether E6 itself works here
    let conf = e6::conformance();
    let conformant = conf.iter().filter(|c| c.0).count();
    for (ok, d) in conf.iter() {
        if !ok {
            println!("note: link life-cycle model differs from the code: {d}");
        }
    }
    let cases = e6::cases(tier == Tier::Thorough);
    let results: Vec<(usize, bool, bool)> = cases
        .par_iter()
        .enumerate()
        .map(|(i, c)| {
            let o = e6::run_scenario(&c.sc);
            let viols = e6::judge(c, &o);
            for v in viols.iter() {
                reporter.report(v, || json!({"engine": "e6_fullstack", "case": c}));
            }
            (i, e6::expected_admitted(c), !o.registered.is_empty())
        })
        .collect();
    let admitted = results.iter().filter(|r| r.1).count();
    ev.states += cases.len() as u64;
    ev.transitions += cases.len() as u64;
    ev.traces_validated += cases.len() as u64 + conf.len() as u64;
    ev.set("admission_cases", json!(cases.len()));
    ev.set("admission_cases_expected_admitted", json!(admitted));
    ev.set("admission_cases_registered", json!(results.iter().filter(|r| r.2).count()));
    ev.set("lifecycle_conformance", json!({"endings_run": conf.len(), "conformant": conformant, "details": conf.iter().map(|c| c.1.clone()).collect::<Vec<_>>()}));
    ev.sample(json!({"admission_case": cases[cases.len() / 2]}));
    if admitted < 2 || admitted == cases.len() {
        crate::vcore::machinery_error("C19: vacuous admission matrix");
    }
    // router part
    crate::e1::run::explore_plans("C19", tier, &reporter, &mut ev, 0.5);
    ev.assumptions.push("admission runs the real remote() task over an in-memory duplex stream with the real router stepped one event at a time by the harness thread; TCP/TLS acceptors are outside".into());
    ev.violations = reporter.new_violations();
    let code = reporter.finish();
    ev.write();
    println!("C19 {}: admission cases={} (expected admitted {}), lifecycle endings conformant {}/{}", tier.name(), cases.len(), admitted, conformant, conf.len());
    code
}

/// C16: the will through the real connection task (E6), then will histories on the stepped
/// router (E1)
pub fn run_c16(tier: Tier) -> i32 {
    let reporter = Reporter::new("C16");
    let mut ev = Evidence::new("C16", tier);
    let cases = e6::will_cases();
    let fired: usize = cases
        .par_iter()
        .map(|c| {
            let o = e6::run_scenario(&c.sc);
            for v in e6::judge_will(c, &o).iter() {
                reporter.report(v, || json!({"engine": "e6_will", "case": c}));
            }
            o.filter_entries.iter().any(|(f, n)| f == "w" && *n > 0) as usize
        })
        .sum();
    let expected = cases.iter().filter(|c| c.expect_will).count();
    if expected < 4 || expected == cases.len() {
        crate::vcore::machinery_error("C16: vacuous will matrix");
    }
    ev.states += cases.len() as u64;
    ev.transitions += cases.len() as u64;
    ev.traces_validated += cases.len() as u64;
    ev.set("fullstack_will_cases", json!(cases.len()));
    ev.set("fullstack_will_cases_expecting_the_will", json!(expected));
    ev.set("fullstack_will_cases_will_published", json!(fired));
    ev.sample(json!({"fullstack_will_case": {"v5": cases[5].v5, "will": cases[5].will, "ending": cases[5].name, "expect_will": cases[5].expect_will}}));
    crate::e1::run::explore_plans("C16", tier, &reporter, &mut ev, 1.0);
    ev.assumptions.push("the full-stack part runs the real remote() task over an in-memory duplex stream with the real router stepped by the harness thread (one will owner, every way its connection can end); the router part plays the link itself".into());
    ev.violations = reporter.new_violations();
    let notes: Vec<String> = reporter.notes().iter().map(|(c, n)| format!("{c}: {n}")).collect();
    ev.set("branches_ended_by_oracles_of_other_statements", json!(notes));
    let code = reporter.finish();
    ev.write();
    println!("C16 {}: full-stack will cases={} (will expected in {}, published in {})", tier.name(), cases.len(), expected, fired);
    code
}

pub fn replay_will(v: &serde_json::Value) -> i32 {
    let c: e6::WillCase = serde_json::from_value(v["case"].clone()).unwrap();
    let mut last = None;
    for _ in 0..2 {
        let o = e6::run_scenario(&c.sc);
        println!("events={:?} log entries={:?} retained={:?} finished={}", o.events, o.filter_entries, o.retained, o.task_finished);
        if let Some(prev) = &last {
            if *prev != o {
                crate::vcore::machinery_error("E6 replay is not deterministic");
            }
        }
        last = Some(o);
    }
    let viols = e6::judge_will(&c, last.as_ref().unwrap());
    for v in viols.iter() {
        println!("  !! {} {}: {}", v.property, v.code, v.detail);
    }
    if viols.is_empty() {
        println!("replay: no violation");
        0
    } else {
        println!("replay: {} violation(s) reproduced", viols.len());
        1
    }
}

pub fn replay(v: &serde_json::Value) -> i32 {
    let c: e6::Case = serde_json::from_value(v["case"].clone()).unwrap();
    let mut last = None;
    for _ in 0..2 {
        let o = e6::run_scenario(&c.sc);
        println!("events={:?} registered={:?} written={:02x?} finished={}", o.events, o.registered, &o.written[..o.written.len().min(16)], o.task_finished);
        if let Some(prev) = &last {
            if *prev != o {
                crate::vcore::machinery_error("E6 replay is not deterministic");
            }
        }
        last = Some(o);
    }
    let viols = e6::judge(&c, last.as_ref().unwrap());
    for v in viols.iter() {
        println!("  !! {} {}: {}", v.property, v.code, v.detail);
    }
    println!("expected admitted: {}", e6::expected_admitted(&c));
    if viols.is_empty() {
        println!("replay: no violation");
        0
    } else {
        println!("replay: {} violation(s) reproduced", viols.len());
        1
    }
}
