//! Evidence file writer (`/verif/evidence/<id>.json`, schema /root/.vp/EVIDENCE.schema.json).
use super::findings::verif_root;
use super::Tier;
use serde_json::{json, Map, Value};
use std::time::Instant;

pub struct Evidence {
    pub property: &'static str,
    pub tier: Tier,
    pub seed: i64,
    pub started: Instant,
    pub states: u64,
    pub transitions: u64,
    pub traces_validated: u64,
    pub samples: Vec<Value>,
    pub exhaustive: bool,
    pub caps: Vec<String>,
    pub assumptions: Vec<String>,
    pub extra: Map<String, Value>,
    pub violations: u64,
}

pub fn seed_from_env() -> i64 {
    std::env::var("VERIF_SEED")
        .ok()
        .and_then(|s| s.parse().ok())
        .unwrap_or(0)
}

impl Evidence {
    pub fn new(property: &'static str, tier: Tier) -> Self {
        Evidence {
            property,
            tier,
            seed: seed_from_env(),
            started: Instant::now(),
            states: 0,
            transitions: 0,
            traces_validated: 0,
            samples: vec![],
            exhaustive: true,
            caps: vec![],
            assumptions: vec![],
            extra: Map::new(),
            violations: 0,
        }
    }

    pub fn set(&mut self, key: &str, v: Value) {
        self.extra.insert(key.to_string(), v);
    }

    pub fn add(&mut self, key: &str, n: u64) {
        let cur = self.extra.get(key).and_then(|v| v.as_u64()).unwrap_or(0);
        self.extra.insert(key.to_string(), json!(cur + n));
    }

    pub fn cap(&mut self, what: impl Into<String>) {
        self.exhaustive = false;
        self.caps.push(what.into());
    }

    pub fn sample(&mut self, v: Value) {
        if self.samples.len() < 8 {
            self.samples.push(v);
        }
    }

    pub fn write(&self) {
        let mut coverage = self.extra.clone();
        coverage.insert("states".into(), json!(self.states.max(1)));
        coverage.insert("transitions".into(), json!(self.transitions.max(1)));
        coverage.insert(
            "traces_validated_against_impl".into(),
            json!(self.traces_validated),
        );
        let samples = if self.samples.is_empty() {
            vec![json!("(no sample recorded)")]
        } else {
            self.samples.clone()
        };
        coverage.insert("samples".into(), Value::Array(samples));
        coverage.insert("exhaustive".into(), json!(self.exhaustive));
        coverage.insert("caps_hit".into(), json!(self.caps));
        let doc = json!({
            "property_id": self.property,
            "tier": self.tier.name(),
            "seed": self.seed,
            "level": "model_checking",
            "coverage": Value::Object(coverage),
            "assumptions": self.assumptions,
            "wall_s": self.started.elapsed().as_secs_f64(),
            "violations": self.violations,
        });
        let dir = verif_root().join("evidence");
        let _ = std::fs::create_dir_all(&dir);
        let path = dir.join(format!("{}.json", self.property));
        if let Err(e) = std::fs::write(&path, serde_json::to_string_pretty(&doc).unwrap()) {
            super::machinery_error(&format!("cannot write evidence {}: {e}", path.display()));
        }
    }
}
