//! Common machinery: fingerprints, violations, known findings, evidence, explorer.
pub mod evidence;
pub mod explore;
pub mod findings;

use std::collections::hash_map::DefaultHasher;
use std::hash::{Hash, Hasher};

/// 128-bit fingerprint from two independently seeded SipHash passes (fixed keys, so the
/// value is the same in every process).
pub fn fp128<T: Hash + ?Sized>(t: &T) -> u128 {
    let mut a = DefaultHasher::new();
    0x9e37_79b9u32.hash(&mut a);
    t.hash(&mut a);
    let mut b = DefaultHasher::new();
    0x7f4a_7c15u32.hash(&mut b);
    t.hash(&mut b);
    ((a.finish() as u128) << 64) | b.finish() as u128
}

pub fn fp64<T: Hash + ?Sized>(t: &T) -> u64 {
    let mut a = DefaultHasher::new();
    t.hash(&mut a);
    a.finish()
}

/// One failed oracle on one execution of the real code.
#[derive(Debug, Clone, PartialEq, Eq)]
pub struct Violation {
    pub property: &'static str,
    /// which oracle failed (stable identifier, used by the known-findings file)
    pub code: String,
    /// what was expected and what was observed
    pub detail: String,
}

impl Violation {
    pub fn new(property: &'static str, code: impl Into<String>, detail: impl Into<String>) -> Self {
        Violation {
            property,
            code: code.into(),
            detail: detail.into(),
        }
    }
}

#[derive(Debug, Clone, Copy, PartialEq, Eq)]
pub enum Tier {
    Quick,
    Thorough,
}

impl Tier {
    pub fn name(self) -> &'static str {
        match self {
            Tier::Quick => "quick",
            Tier::Thorough => "thorough",
        }
    }
}

/// Run `f`, turning a panic into `Err(message @ location)`.
pub fn catch<R>(f: impl FnOnce() -> R) -> Result<R, String> {
    IN_CATCH.with(|c| c.set(c.get() + 1));
    let r = std::panic::catch_unwind(std::panic::AssertUnwindSafe(f));
    IN_CATCH.with(|c| c.set(c.get() - 1));
    match r {
        Ok(r) => Ok(r),
        Err(e) => {
            let msg = if let Some(s) = e.downcast_ref::<&str>() {
                s.to_string()
            } else if let Some(s) = e.downcast_ref::<String>() {
                s.clone()
            } else {
                "non-string panic payload".to_string()
            };
            let loc = LAST_PANIC_LOCATION.with(|l| l.borrow_mut().take());
            Err(match loc {
                Some(l) => format!("{msg} @ {l}"),
                None => msg,
            })
        }
    }
}

thread_local! {
    pub static LAST_PANIC_LOCATION: std::cell::RefCell<Option<String>> = const { std::cell::RefCell::new(None) };
    pub static QUIET_PANICS: std::cell::Cell<bool> = const { std::cell::Cell::new(true) };
    /// depth of `catch` scopes on this thread: panics outside any scope are harness bugs
    pub static IN_CATCH: std::cell::Cell<u32> = const { std::cell::Cell::new(0) };
}

/// Install a panic hook that records the location (for `catch`) and stays silent.
pub fn install_panic_hook() {
    let default = std::panic::take_hook();
    std::panic::set_hook(Box::new(move |info| {
        let loc = info
            .location()
            .map(|l| format!("{}:{}", l.file(), l.line()));
        LAST_PANIC_LOCATION.with(|l| *l.borrow_mut() = loc);
        if !QUIET_PANICS.with(|q| q.get()) || IN_CATCH.with(|c| c.get()) == 0 {
            // a panic outside the code under test is a machinery failure, never a verdict
            default(info);
            if IN_CATCH.with(|c| c.get()) == 0 {
                eprintln!("MACHINERY-ERROR: harness panicked (see above)");
                std::process::exit(EXIT_MACHINERY);
            }
        }
    }));
}

/// Exit code for a machinery failure (never a verdict).
pub const EXIT_MACHINERY: i32 = 2;

pub fn machinery_error(msg: &str) -> ! {
    eprintln!("MACHINERY-ERROR: {msg}");
    std::process::exit(EXIT_MACHINERY)
}
