//! Explicit-state breadth-first explorer over action histories of real objects.
//!
//! A state is the action history that reaches it; the live world is rebuilt by
//! re-executing the history on fresh real objects. States are merged by a 128-bit
//! fingerprint of (code-side snapshot, harness-side state, monitor state).
use super::evidence::Evidence;
use super::findings::Reporter;
use super::Violation;
use rayon::prelude::*;
use serde::{de::DeserializeOwned, Serialize};
use serde_json::{json, Value};
use std::collections::{HashMap, HashSet};
use std::fmt::Debug;
use std::sync::atomic::{AtomicBool, AtomicU64, Ordering};
use std::time::{Duration, Instant};

pub trait World: Sized {
    type Cfg: Sync + Serialize + DeserializeOwned + Clone + Debug;
    type Action: Clone + Debug + Send + Sync + Ord + Serialize + DeserializeOwned;

    const ENGINE: &'static str;

    fn new(cfg: &Self::Cfg) -> Self;
    /// Actions enabled in this state, simplest first, each with its deviation cost.
    fn enabled(&self, cfg: &Self::Cfg) -> Vec<(Self::Action, u8)>;
    /// Execute one action on the real code and update the monitors.
    fn apply(&mut self, cfg: &Self::Cfg, a: &Self::Action, out: &mut Vec<Violation>);
    /// Invariants evaluated in every state.
    fn check(&self, _cfg: &Self::Cfg, _out: &mut Vec<Violation>) {}
    fn fingerprint(&self) -> u128;
    /// Deterministic closure ("everything delivered, everybody acknowledges, until nothing
    /// changes") and the eventual clauses of the property. Returns the number of
    /// model-vs-implementation conformance traces it validated (0 if none).
    fn closure(self, _cfg: &Self::Cfg, _out: &mut Vec<Violation>) -> u64 {
        0
    }
    /// Hash of what the environment observed so far (for the vacuity check).
    fn outcome(&self) -> u64 {
        0
    }
    /// Human-readable rendering for replay traces.
    fn describe(&self) -> String {
        String::new()
    }
}

#[derive(Clone, Debug)]
pub struct Params {
    /// maximum history length, indexed by number of deviations used
    pub depth_by_devs: Vec<usize>,
    pub max_states: u64,
    pub time_cap: Duration,
    pub run_closure: bool,
}

struct Node<A> {
    hist: Vec<A>,
    devs: u8,
    fp: u128,
}

struct Cand<A> {
    hist: Vec<A>,
    devs: u8,
    fp: u128,
    outcome: u64,
}

pub fn replay_json<W: World>(cfg: &W::Cfg, hist: &[W::Action]) -> Value {
    json!({
        "engine": W::ENGINE,
        "cfg": serde_json::to_value(cfg).unwrap(),
        "actions": serde_json::to_value(hist).unwrap(),
    })
}

/// Rebuild a world from a history. Violations raised along the way are discarded
/// (they were reported when the prefix was first explored).
pub fn rebuild<W: World>(cfg: &W::Cfg, hist: &[W::Action]) -> W {
    let mut w = W::new(cfg);
    let mut sink = Vec::new();
    for a in hist {
        w.apply(cfg, a, &mut sink);
        sink.clear();
    }
    w
}

#[derive(Default, Debug, Clone)]
pub struct Stats {
    pub states: u64,
    pub transitions: u64,
    pub closures: u64,
    pub conformance: u64,
    pub outcomes: u64,
    pub max_depth: usize,
    pub per_depth: Vec<u64>,
    pub states_by_devs: Vec<u64>,
    pub capped: Option<String>,
    pub pruned_on_violation: u64,
}

/// Explore one configuration. Violations go to `reporter`; counts are returned and
/// added to `ev`.
pub fn explore<W: World>(
    cfg: &W::Cfg,
    params: &Params,
    reporter: &Reporter,
    ev: &mut Evidence,
) -> Stats {
    let started = Instant::now();
    let max_devs = params.depth_by_devs.len() - 1;
    let mut stats = Stats {
        states_by_devs: vec![0; max_devs + 1],
        ..Default::default()
    };
    let mut visited: HashMap<u128, u8> = HashMap::new();
    let mut outcomes: HashSet<u64> = HashSet::new();

    // initial state
    let w0 = W::new(cfg);
    let mut out = Vec::new();
    w0.check(cfg, &mut out);
    let fp0 = w0.fingerprint();
    outcomes.insert(w0.outcome());
    if params.run_closure {
        stats.conformance += w0.closure(cfg, &mut out);
        stats.closures += 1;
    }
    for v in out.drain(..) {
        reporter.report(&v, || replay_json::<W>(cfg, &[]));
    }
    visited.insert(fp0, 0);
    stats.states = 1;
    stats.states_by_devs[0] = 1;
    stats.per_depth.push(1);
    let mut frontier: Vec<Node<W::Action>> = vec![Node {
        hist: vec![],
        devs: 0,
        fp: fp0,
    }];
    let mut last_sample: Vec<Vec<W::Action>> = vec![];

    let transitions = AtomicU64::new(0);
    let closures = AtomicU64::new(0);
    let conformance = AtomicU64::new(0);
    let pruned = AtomicU64::new(0);
    let stop = AtomicBool::new(false);

    let mut depth = 0usize;
    'levels: while !frontier.is_empty() {
        depth += 1;
        if depth > params.depth_by_devs[0] {
            break;
        }
        let mut next: Vec<Node<W::Action>> = Vec::new();
        for chunk in frontier.chunks(20_000) {
            let visited_ref = &visited;
            let cands: Vec<Cand<W::Action>> = chunk
                .par_iter()
                .flat_map_iter(|node| {
                    let mut cands: Vec<Cand<W::Action>> = Vec::new();
                    if stop.load(Ordering::Relaxed) {
                        return cands.into_iter();
                    }
                    let w = rebuild::<W>(cfg, &node.hist);
                    if w.fingerprint() != node.fp {
                        super::machinery_error(&format!(
                            "replay divergence: history {:?} rebuilt to a different fingerprint",
                            node.hist
                        ));
                    }
                    let acts = w.enabled(cfg);
                    drop(w);
                    for (a, cost) in acts {
                        let devs2 = node.devs as usize + cost as usize;
                        if devs2 > max_devs || depth > params.depth_by_devs[devs2] {
                            continue;
                        }
                        let mut w2 = rebuild::<W>(cfg, &node.hist);
                        let mut out = Vec::new();
                        w2.apply(cfg, &a, &mut out);
                        w2.check(cfg, &mut out);
                        transitions.fetch_add(1, Ordering::Relaxed);
                        let mut hist2 = node.hist.clone();
                        hist2.push(a);
                        if !out.is_empty() {
                            for v in out.iter() {
                                reporter.report(v, || replay_json::<W>(cfg, &hist2));
                            }
                            pruned.fetch_add(1, Ordering::Relaxed);
                            continue;
                        }
                        let fp2 = w2.fingerprint();
                        let outcome = w2.outcome();
                        let seen = visited_ref.get(&fp2).is_some_and(|d| *d as usize <= devs2);
                        if !seen && params.run_closure {
                            let mut out = Vec::new();
                            let c = w2.closure(cfg, &mut out);
                            conformance.fetch_add(c, Ordering::Relaxed);
                            closures.fetch_add(1, Ordering::Relaxed);
                            if !out.is_empty() {
                                for v in out.iter() {
                                    reporter.report(v, || {
                                        let mut r = replay_json::<W>(cfg, &hist2);
                                        r["then"] = json!("closure");
                                        r
                                    });
                                }
                                pruned.fetch_add(1, Ordering::Relaxed);
                                continue;
                            }
                        }
                        if !seen {
                            cands.push(Cand {
                                hist: hist2,
                                devs: devs2 as u8,
                                fp: fp2,
                                outcome,
                            });
                        }
                    }
                    if started.elapsed() > params.time_cap {
                        stop.store(true, Ordering::Relaxed);
                    }
                    cands.into_iter()
                })
                .collect();

            // deterministic merge: smallest (fp, devs, history) wins
            let mut cands = cands;
            cands.sort_by(|a, b| (a.fp, a.devs, &a.hist).cmp(&(b.fp, b.devs, &b.hist)));
            let mut last_fp: Option<u128> = None;
            for c in cands {
                if last_fp == Some(c.fp) {
                    continue;
                }
                last_fp = Some(c.fp);
                outcomes.insert(c.outcome);
                match visited.get(&c.fp) {
                    Some(d) if *d <= c.devs => continue,
                    Some(_) => {}
                    None => {
                        stats.states += 1;
                        stats.states_by_devs[c.devs as usize] += 1;
                    }
                }
                visited.insert(c.fp, c.devs);
                next.push(Node {
                    hist: c.hist,
                    devs: c.devs,
                    fp: c.fp,
                });
            }
            if stop.load(Ordering::Relaxed) {
                stats.capped = Some(format!(
                    "time cap {:?} hit at depth {depth}",
                    params.time_cap
                ));
                break 'levels;
            }
            if stats.states > params.max_states {
                stats.capped = Some(format!(
                    "state cap {} hit at depth {depth}",
                    params.max_states
                ));
                break 'levels;
            }
        }
        stats.per_depth.push(next.len() as u64);
        if !next.is_empty() {
            stats.max_depth = depth;
            last_sample = next.iter().take(2).map(|n| n.hist.clone()).collect();
        }
        frontier = next;
    }

    stats.transitions = transitions.load(Ordering::Relaxed);
    stats.closures += closures.load(Ordering::Relaxed);
    stats.conformance += conformance.load(Ordering::Relaxed);
    stats.pruned_on_violation = pruned.load(Ordering::Relaxed);
    stats.outcomes = outcomes.len() as u64;

    ev.states += stats.states;
    ev.transitions += stats.transitions;
    // every transition is an execution of the implementation; closures are further ones
    ev.traces_validated += stats.transitions + stats.closures;
    ev.add("closure_runs", stats.closures);
    ev.add("model_conformance_traces", stats.conformance);
    if let Some(c) = &stats.capped {
        ev.cap(format!("{} cfg={:?}", c, cfg));
    }
    for h in last_sample {
        ev.sample(json!({"engine": W::ENGINE, "cfg": serde_json::to_value(cfg).unwrap(), "history": serde_json::to_value(&h).unwrap()}));
    }
    stats
}

/// Replay a history twice, assert identical fingerprints, print the trace and violations.
/// Returns the violations of the second run.
pub fn replay_print<W: World>(cfg: &W::Cfg, hist: &[W::Action], with_closure: bool) -> Vec<Violation> {
    let mut fps: Vec<Vec<u128>> = vec![];
    let mut all: Vec<Violation> = vec![];
    for round in 0..2 {
        let mut w = W::new(cfg);
        let mut f = vec![w.fingerprint()];
        let mut viols = vec![];
        if round == 1 {
            println!("cfg: {:?}", cfg);
            println!("  [init] {}", w.describe());
        }
        for (i, a) in hist.iter().enumerate() {
            let mut out = vec![];
            w.apply(cfg, a, &mut out);
            w.check(cfg, &mut out);
            f.push(w.fingerprint());
            if round == 1 {
                println!("  [{}] {:?}\n        {}", i + 1, a, w.describe());
                for v in &out {
                    println!("      !! {} {}: {}", v.property, v.code, v.detail);
                }
            }
            viols.extend(out);
        }
        if with_closure {
            let mut out = vec![];
            w.closure(cfg, &mut out);
            if round == 1 {
                println!("  [closure]");
                for v in &out {
                    println!("      !! {} {}: {}", v.property, v.code, v.detail);
                }
            }
            viols.extend(out);
        }
        fps.push(f);
        all = viols;
    }
    if fps[0] != fps[1] {
        super::machinery_error("replay is not deterministic: two runs of the same history diverged");
    }
    println!("replayed twice with identical fingerprints ({} steps)", hist.len());
    all
}
