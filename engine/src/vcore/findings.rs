//! Known findings (committed file `/verif/known_findings.json`, never written at run time)
//! and the per-run reporter that separates known findings from new violations.
use super::Violation;
use serde_json::{json, Value};
use std::collections::BTreeMap;
use std::path::PathBuf;
use std::sync::Mutex;

#[derive(Debug, Clone)]
pub struct Finding {
    pub property: String,
    pub id: String,
    /// "known" suppresses (prints KNOWN-FINDING); "fixed" suppresses nothing
    pub status: String,
    pub code: String,
    /// every listed substring must occur in the violation detail
    pub detail_contains: Vec<String>,
    pub summary: String,
}

pub fn verif_root() -> PathBuf {
    if let Ok(p) = std::env::var("VERIF_ROOT") {
        return PathBuf::from(p);
    }
    PathBuf::from("/verif")
}

pub fn load_findings() -> Vec<Finding> {
    let path = verif_root().join("known_findings.json");
    let Ok(text) = std::fs::read_to_string(&path) else {
        return vec![];
    };
    let v: Value = match serde_json::from_str(&text) {
        Ok(v) => v,
        Err(e) => super::machinery_error(&format!("known_findings.json unreadable: {e}")),
    };
    let mut out = vec![];
    for f in v["findings"].as_array().cloned().unwrap_or_default() {
        out.push(Finding {
            property: f["property"].as_str().unwrap_or("").to_string(),
            id: f["id"].as_str().unwrap_or("").to_string(),
            status: f["status"].as_str().unwrap_or("known").to_string(),
            code: f["code"].as_str().unwrap_or("").to_string(),
            detail_contains: f["detail_contains"]
                .as_array()
                .map(|a| {
                    a.iter()
                        .filter_map(|s| s.as_str().map(|s| s.to_string()))
                        .collect()
                })
                .unwrap_or_default(),
            summary: f["summary"].as_str().unwrap_or("").to_string(),
        });
    }
    out
}

/// Collects what a run found. Thread-safe.
pub struct Reporter {
    pub property: &'static str,
    findings: Vec<Finding>,
    inner: Mutex<Inner>,
    max_new: usize,
}

/// Which statements an oracle of the broker reference model speaks for. The model runs all
/// of its oracles in every E1 check (it has to follow the whole history to stay in step with
/// the router), but a check answers for its own statement only: an oracle that belongs to
/// other statements ends the branch (the model may be out of step from there on) and is
/// listed as a NOTE, not as a verdict. Codes that are not listed belong to every check
/// (crashes, hangs, the machinery's own consistency checks).
pub fn owners(code: &str) -> Option<&'static [&'static str]> {
    Some(match code {
        // delivery: who gets which message, how often, in which order
        "unexpected_forward" | "spurious_forward" => &["C01", "C06", "C08", "C12", "C14", "C16", "C17", "C20"],
        // (shared groups have their own completeness oracle)
        "undelivered" => &["C01", "C06", "C08", "C09", "C12", "C14", "C16", "C20"],
        "resubscribe_qos_not_applied" | "forward_qos" => &["C01"],
        // the topic a subscriber ends up with (aliases it cannot resolve lose the topic)
        "bad_topic_alias" => &["C01", "C20"],
        // replies to requests
        "unexpected_reply" | "missing_reply" => &["C06", "C14"],
        // the release that completes a QoS 2 delivery to a subscriber
        "release_missing" | "unexpected_release" => &["C01", "C08", "C09"],
        // persistent sessions (a subscription in force keeps its identifier)
        "session_present" => &["C08"],
        "subscription_id_missing" | "subscription_id_wrong" => &["C08", "C20"],
        // outbound window
        "forward_pkid_zero" | "forward_pkid_reused" | "window_exceeded" => &["C09"],
        // layout of the router's tables as the snapshot hook shows it: no statement speaks
        // of it, it is only ever a note
        "slab_misaligned" | "connection_map_not_bijective" | "inflight_over_100" => &[],
        // who is connected
        "unexpected_close" => &["C03", "C09", "C14"],
        "connection_set" => &["C03", "C09", "C14", "C19"],
        "max_connections_exceeded" | "connect_refused" | "connack_not_success" => &["C19", "C14", "C03"],
        "late_event_hit_live_connection" => &["C14"],
        // retained messages
        "retained_flag_unexpected" => &["C15"],
        // (C16: the will is published "retain as registered", so a later subscriber is owed
        // it — in the C16 plans only wills carry the retain flag)
        "retained_replay" => &["C15", "C16"],
        // shared subscriptions
        "shared_spurious" | "shared_duplicate" | "shared_order" | "shared_undelivered" | "shared_group_after_persistent_member_left" => &["C17"],
        // protocol versions
        "props_not_preserved" | "props_towards_v4" | "encode_error" | "encode_panic" | "client_cannot_decode" | "connack_not_encodable" => &["C20"],
        _ => return None,
    })
}

#[derive(Default)]
struct Inner {
    /// oracle code -> (executions, first detail) for oracles of other statements
    notes: BTreeMap<String, (u64, String)>,
    known_hits: BTreeMap<String, (u64, String)>,
    /// (violation, replay json) — first few distinct (code) kept
    new: Vec<(Violation, Value)>,
    new_count: u64,
    new_codes: BTreeMap<String, u64>,
}

impl Reporter {
    pub fn new(property: &'static str) -> Self {
        Reporter {
            property,
            findings: load_findings(),
            inner: Mutex::new(Inner::default()),
            max_new: 5,
        }
    }

    /// `Some(id)` if the violation is a listed known (unfixed) finding.
    pub fn known_id(&self, v: &Violation) -> Option<&Finding> {
        self.findings.iter().find(|f| {
            f.status == "known"
                && f.property == v.property
                && f.code == v.code
                && f.detail_contains.iter().all(|s| v.detail.contains(s))
        })
    }

    /// Record a violation together with the replay that reproduces it.
    /// Returns true when it is a known finding.
    pub fn report(&self, v: &Violation, replay: impl FnOnce() -> Value) -> bool {
        if owners(&v.code).is_some_and(|o| !o.contains(&v.property)) {
            let mut g = self.inner.lock().unwrap();
            let first = !g.notes.contains_key(&v.code);
            g.notes.entry(v.code.clone()).or_insert((0, v.detail.clone())).0 += 1;
            if first && std::env::var("VERIF_DUMP_NOTES").is_ok() {
                let dir = verif_root().join("replays").join("notes");
                let _ = std::fs::create_dir_all(&dir);
                let doc = json!({"property": v.property, "code": v.code, "detail": v.detail, "replay": replay()});
                let _ = std::fs::write(
                    dir.join(format!("{}-{}.json", v.property, v.code)),
                    serde_json::to_string_pretty(&doc).unwrap(),
                );
            }
            return true;
        }
        if let Some(f) = self.known_id(v) {
            let mut g = self.inner.lock().unwrap();
            let first = !g.known_hits.contains_key(&f.id);
            let e = g
                .known_hits
                .entry(f.id.clone())
                .or_insert((0, f.summary.clone()));
            e.0 += 1;
            // maintenance aid: VERIF_DUMP_KNOWN=1 writes one replay per known finding
            if first && std::env::var("VERIF_DUMP_KNOWN").is_ok() {
                let dir = verif_root().join("replays").join("known");
                let _ = std::fs::create_dir_all(&dir);
                let doc = json!({"property": v.property, "code": v.code, "detail": v.detail, "replay": replay()});
                let _ = std::fs::write(
                    dir.join(format!("{}-{}.json", v.property, f.id)),
                    serde_json::to_string_pretty(&doc).unwrap(),
                );
            }
            return true;
        }
        let mut g = self.inner.lock().unwrap();
        g.new_count += 1;
        let n = g.new_codes.entry(v.code.clone()).or_insert(0);
        *n += 1;
        let first_of_code = *n == 1;
        if g.new.len() < self.max_new && (first_of_code || g.new.len() < 2) {
            let r = replay();
            g.new.push((v.clone(), r));
        }
        false
    }

    pub fn new_violations(&self) -> u64 {
        self.inner.lock().unwrap().new_count
    }

    pub fn notes(&self) -> Vec<(String, u64)> {
        self.inner.lock().unwrap().notes.iter().map(|(k, v)| (k.clone(), v.0)).collect()
    }

    pub fn known_hits(&self) -> Vec<(String, u64)> {
        self.inner
            .lock()
            .unwrap()
            .known_hits
            .iter()
            .map(|(k, v)| (k.clone(), v.0))
            .collect()
    }

    /// Print KNOWN-FINDING / VIOLATION lines, write replay files; returns the exit code.
    pub fn finish(&self) -> i32 {
        let g = self.inner.lock().unwrap();
        for (code, (n, detail)) in g.notes.iter() {
            let short: String = detail.chars().take(160).collect();
            println!(
                "NOTE: property={} oracle {} (speaks for {:?}, not for this statement) fired in {} executions, branches ended there; first: {}",
                self.property,
                code,
                owners(code).unwrap_or(&[]),
                n,
                short
            );
        }
        for (id, (n, summary)) in g.known_hits.iter() {
            println!(
                "KNOWN-FINDING: property={} {} [{}; {} executions hit it]",
                self.property, summary, id, n
            );
        }
        if g.new.is_empty() {
            return 0;
        }
        let dir = verif_root().join("replays");
        let _ = std::fs::create_dir_all(&dir);
        for (v, replay) in g.new.iter() {
            let tag = super::fp64(&(v.code.as_str(), v.detail.as_str(), replay.to_string()));
            let path = dir.join(format!("{}-{:016x}.json", v.property, tag));
            let doc = json!({
                "property": v.property,
                "code": v.code,
                "detail": v.detail,
                "replay": replay,
            });
            if let Err(e) = std::fs::write(&path, serde_json::to_string_pretty(&doc).unwrap()) {
                eprintln!("cannot write replay {}: {e}", path.display());
            }
            println!("VIOLATION property={} replay={}", v.property, path.display());
            println!("  code={} detail={}", v.code, v.detail);
        }
        if g.new_count as usize > g.new.len() {
            println!(
                "  ({} violating executions in total, by oracle: {:?})",
                g.new_count, g.new_codes
            );
        }
        1
    }
}
