//! E5 — the real `CommitLog<T>` against a list (property C13).
//!
//! State = sequence of appended entry sizes. In every reached state the log is read from
//! every cursor it has issued so far in that history (closed under reading) with every
//! length of the alphabet, and from fabricated cursors for the no-panic clause.
use crate::vcore::evidence::Evidence;
use crate::vcore::explore::{explore, Params, World};
use crate::vcore::findings::Reporter;
use crate::vcore::{catch, fp128, Tier, Violation};
use rumqttd::verif::{CommitLog, Position, Storage};
use serde::{Deserialize, Serialize};
use serde_json::json;
use std::collections::BTreeSet;
use std::time::Duration;

const P: &str = "C13";

#[derive(Clone, Debug, PartialEq, Eq)]
struct Entry {
    id: u32,
    size: usize,
}

impl Storage for Entry {
    fn size(&self) -> usize {
        self.size
    }
}

#[derive(Clone, Debug, Serialize, Deserialize)]
pub struct Cfg {
    pub segment_size: usize,
    pub max_segments: usize,
    pub sizes: Vec<usize>,
    pub lens: Vec<u64>,
    pub fabricate: bool,
}

#[derive(Clone, Debug, PartialEq, Eq, PartialOrd, Ord, Serialize, Deserialize)]
pub enum Action {
    /// append an entry of `sizes[i]` bytes
    Append(usize),
}

pub struct LogWorld {
    log: CommitLog<Entry>,
    /// reference: (id, segment, global index) of every appended entry, as the log reported
    appended: Vec<(u32, u64, u64)>,
    cursors: BTreeSet<(u64, u64)>,
    last_head: u64,
    reads: u64,
    nontrivial: u64,
    sizes_hist: Vec<usize>,
    dead: bool,
}

fn head_tail(log: &CommitLog<Entry>) -> (u64, u64) {
    log._head_and_tail()
}

impl LogWorld {
    /// Retained entries (segment >= head) in append order.
    fn retained(&self) -> Vec<(u32, u64, u64)> {
        let (head, _) = head_tail(&self.log);
        self.appended
            .iter()
            .filter(|e| e.1 >= head)
            .cloned()
            .collect()
    }

    fn check_read(
        &mut self,
        cursor: (u64, u64),
        len: u64,
        issued: bool,
        out: &mut Vec<Violation>,
        new_cursors: &mut Vec<(u64, u64)>,
    ) {
        self.reads += 1;
        let mut got: Vec<(Entry, (u64, u64))> = Vec::new();
        let res = catch(|| self.log.readv(cursor, len, &mut got));
        let pos = match res {
            Err(p) => {
                out.push(Violation::new(
                    P,
                    "readv_panic",
                    format!("readv({cursor:?}, {len}) panicked: {p}"),
                ));
                self.dead = true;
                return;
            }
            Ok(Err(e)) => {
                out.push(Violation::new(
                    P,
                    "readv_error",
                    format!("readv({cursor:?}, {len}) returned Err({e})"),
                ));
                return;
            }
            Ok(Ok(p)) => p,
        };
        if !issued {
            // fabricated cursor: only the no-panic clause
            return;
        }
        let retained = self.retained();
        let first_idx = retained.first().map(|e| e.2);
        let (head, _) = head_tail(&self.log);
        // global index the read must start at
        let from = if cursor.0 < head {
            first_idx.unwrap_or(cursor.1)
        } else {
            match first_idx {
                Some(f) => cursor.1.max(f),
                None => cursor.1,
            }
        };
        let avail: Vec<&(u32, u64, u64)> = retained.iter().filter(|e| e.2 >= from).collect();
        let expect: Vec<&(u32, u64, u64)> = avail.iter().take(len as usize).cloned().collect();
        if !expect.is_empty() {
            self.nontrivial += 1;
        }
        let got_view: Vec<(u32, (u64, u64))> = got.iter().map(|(e, o)| (e.id, *o)).collect();
        let exp_view: Vec<(u32, (u64, u64))> = expect.iter().map(|e| (e.0, (e.1, e.2))).collect();
        if got_view != exp_view {
            out.push(Violation::new(
                P,
                "read_entries",
                format!(
                    "readv({cursor:?}, {len}) after appends {:?}: expected (id,(segment,offset)) {:?}, got {:?}",
                    self.sizes_hist, exp_view, got_view
                ),
            ));
            return;
        }
        let remaining_after = avail.len() - expect.len();
        let (done, end) = match pos {
            Position::Done { end, .. } => (true, end),
            Position::Next { end, .. } => (false, end),
        };
        if done != (remaining_after == 0) {
            out.push(Violation::new(
                P,
                "caught_up_flag",
                format!(
                    "readv({cursor:?}, {len}) after appends {:?}: reported {} but {} retained entries remain unread",
                    self.sizes_hist,
                    if done { "caught up" } else { "more to read" },
                    remaining_after
                ),
            ));
            return;
        }
        // continuation must resume exactly where this read stopped
        let mut rest: Vec<(Entry, (u64, u64))> = Vec::new();
        match catch(|| self.log.readv(end, 1000, &mut rest)) {
            Ok(Ok(_)) => {
                let rest_view: Vec<(u32, (u64, u64))> =
                    rest.iter().map(|(e, o)| (e.id, *o)).collect();
                let exp_rest: Vec<(u32, (u64, u64))> = avail
                    .iter()
                    .skip(expect.len())
                    .map(|e| (e.0, (e.1, e.2)))
                    .collect();
                if rest_view != exp_rest {
                    out.push(Violation::new(
                        P,
                        "continuation",
                        format!(
                            "readv({cursor:?}, {len}) after appends {:?} returned continuation {end:?}; reading on from it gave {:?}, expected the rest {:?}",
                            self.sizes_hist, rest_view, exp_rest
                        ),
                    ));
                    return;
                }
            }
            other => {
                out.push(Violation::new(
                    P,
                    "continuation_read_failed",
                    format!("read from continuation {end:?} failed: {other:?}"),
                ));
                return;
            }
        }
        new_cursors.push(end);
        for (_, o) in got.iter() {
            new_cursors.push(*o);
        }
    }

    fn read_everything(&mut self, cfg: &Cfg, out: &mut Vec<Violation>) {
        // closure of issued cursors under reading
        let mut work: Vec<(u64, u64)> = self.cursors.iter().cloned().collect();
        let mut done: BTreeSet<(u64, u64)> = BTreeSet::new();
        while let Some(c) = work.pop() {
            if !done.insert(c) || self.dead {
                continue;
            }
            for &len in cfg.lens.iter() {
                let mut fresh = Vec::new();
                self.check_read(c, len, true, out, &mut fresh);
                for n in fresh {
                    if self.cursors.insert(n) {
                        work.push(n);
                    }
                }
                if !out.is_empty() {
                    return;
                }
            }
        }
        if cfg.fabricate && !self.dead {
            let (_, tail) = head_tail(&self.log);
            let next = self.log.next_offset().1;
            let mut offs: Vec<u64> = (0..next + 3).collect();
            offs.push(u64::MAX - 1);
            offs.push(u64::MAX);
            for s in (0..tail + 3).chain([u64::MAX - 1, u64::MAX]) {
                for &o in offs.iter() {
                    if self.cursors.contains(&(s, o)) {
                        continue;
                    }
                    for &len in cfg.lens.iter() {
                        let mut fresh = Vec::new();
                        self.check_read((s, o), len, false, out, &mut fresh);
                        if self.dead {
                            return;
                        }
                    }
                }
            }
        }
    }
}

impl World for LogWorld {
    type Cfg = Cfg;
    type Action = Action;
    const ENGINE: &'static str = "e5_commitlog";

    fn new(cfg: &Cfg) -> Self {
        let log = CommitLog::new(cfg.segment_size, cfg.max_segments).unwrap();
        let mut cursors = BTreeSet::new();
        cursors.insert(log.next_offset());
        LogWorld {
            log,
            appended: vec![],
            cursors,
            last_head: 0,
            reads: 0,
            nontrivial: 0,
            sizes_hist: vec![],
            dead: false,
        }
    }

    fn enabled(&self, cfg: &Cfg) -> Vec<(Action, u8)> {
        if self.dead {
            return vec![];
        }
        (0..cfg.sizes.len()).map(|i| (Action::Append(i), 0)).collect()
    }

    fn apply(&mut self, cfg: &Cfg, a: &Action, out: &mut Vec<Violation>) {
        let Action::Append(i) = a;
        let size = cfg.sizes[*i];
        self.sizes_hist.push(size);
        let id = self.appended.len() as u32;
        let global_idx = self.appended.len() as u64;
        let r = catch(|| self.log.append(Entry { id, size }));
        let (seg, off) = match r {
            Ok(v) => v,
            Err(p) => {
                out.push(Violation::new(P, "append_panic", format!("append panicked: {p}")));
                self.dead = true;
                return;
            }
        };
        // tags gap-free and monotone: the log reports the position just after the entry
        if off != global_idx + 1 {
            out.push(Violation::new(
                P,
                "append_offset",
                format!(
                    "append #{id} after {:?} returned offset {off}, expected {}",
                    self.sizes_hist,
                    global_idx + 1
                ),
            ));
        }
        if let Some(last) = self.appended.last() {
            if seg < last.1 || seg > last.1 + 1 {
                out.push(Violation::new(
                    P,
                    "append_segment",
                    format!("append #{id} landed in segment {seg} after segment {}", last.1),
                ));
            }
        }
        self.appended.push((id, seg, global_idx));
        let (head, tail) = head_tail(&self.log);
        if tail != seg {
            out.push(Violation::new(
                P,
                "tail_mismatch",
                format!("append reported segment {seg} but tail is {tail}"),
            ));
        }
        if head < self.last_head {
            out.push(Violation::new(P, "head_decreased", format!("head went {} -> {head}", self.last_head)));
        }
        self.last_head = head;
        if tail - head + 1 > cfg.max_segments as u64 {
            out.push(Violation::new(
                P,
                "retention_bound",
                format!(
                    "after appends {:?}: {} segments retained, limit {}",
                    self.sizes_hist,
                    tail - head + 1,
                    cfg.max_segments
                ),
            ));
        }
        if self.log.memory_segments_count() as u64 != tail - head + 1 {
            out.push(Violation::new(
                P,
                "segment_count",
                format!(
                    "{} segments in memory but head..tail = {head}..{tail}",
                    self.log.memory_segments_count()
                ),
            ));
        }
        self.cursors.insert((seg, off));
        self.cursors.insert(self.log.next_offset());
        self.cursors.insert((seg, global_idx));
    }

    fn check(&self, _cfg: &Cfg, _out: &mut Vec<Violation>) {}

    fn fingerprint(&self) -> u128 {
        fp128(&(&self.sizes_hist, self.dead))
    }

    fn closure(mut self, cfg: &Cfg, out: &mut Vec<Violation>) -> u64 {
        self.read_everything(cfg, out);
        READS.fetch_add(self.reads, std::sync::atomic::Ordering::Relaxed);
        NONTRIVIAL.fetch_add(self.nontrivial, std::sync::atomic::Ordering::Relaxed);
        0
    }

    fn outcome(&self) -> u64 {
        let (h, t) = head_tail(&self.log);
        crate::vcore::fp64(&(h, t, self.log.next_offset()))
    }

    fn describe(&self) -> String {
        let (h, t) = head_tail(&self.log);
        format!(
            "head={h} tail={t} next={:?} appended={:?}",
            self.log.next_offset(),
            self.appended
        )
    }
}

static READS: std::sync::atomic::AtomicU64 = std::sync::atomic::AtomicU64::new(0);
static NONTRIVIAL: std::sync::atomic::AtomicU64 = std::sync::atomic::AtomicU64::new(0);

pub fn configs(tier: Tier) -> (Vec<Cfg>, usize) {
    let lens = vec![0, 1, 2, 3, 7, 1000, u64::MAX];
    let mut v = vec![];
    let depth = match tier {
        Tier::Quick => 8,
        Tier::Thorough => 10,
    };
    for max_segments in [1usize, 2, 3] {
        v.push(Cfg {
            segment_size: 1024,
            max_segments,
            sizes: vec![300, 600, 1100, 2500],
            lens: lens.clone(),
            fabricate: true,
        });
    }
    {
        // entries exactly at the segment boundary and many tiny entries
        v.push(Cfg {
            segment_size: 1024,
            max_segments: 2,
            sizes: vec![1, 512, 1023, 1024, 1025],
            lens: lens.clone(),
            fabricate: true,
        });
        v.push(Cfg {
            segment_size: 2048,
            max_segments: 4,
            sizes: vec![700, 2047, 2048, 5000],
            lens,
            fabricate: true,
        });
    }
    (v, depth)
}

pub fn run(tier: Tier) -> i32 {
    let reporter = Reporter::new(P);
    let mut ev = Evidence::new(P, tier);
    let (cfgs, depth) = configs(tier);
    let mut per_cfg = vec![];
    for cfg in cfgs.iter() {
        let depth = if cfg.sizes.len() > 4 { depth.min(if tier == Tier::Quick { 6 } else { 8 }) } else if cfg.segment_size != 1024 && tier == Tier::Quick { 7 } else { depth };
        let params = Params {
            depth_by_devs: vec![depth],
            max_states: 5_000_000,
            time_cap: Duration::from_secs(if tier == Tier::Quick { 40 } else { 1500 }),
            run_closure: true,
        };
        let st = explore::<LogWorld>(cfg, &params, &reporter, &mut ev);
        if st.outcomes < 2 {
            crate::vcore::machinery_error("C13: vacuous exploration (one outcome)");
        }
        per_cfg.push(json!({"cfg": cfg, "states": st.states, "transitions": st.transitions, "max_depth": st.max_depth, "distinct_outcomes": st.outcomes}));
    }
    ev.set("per_configuration", json!(per_cfg));
    ev.set("reads_checked", json!(READS.load(std::sync::atomic::Ordering::Relaxed)));
    ev.set(
        "reads_returning_entries",
        json!(NONTRIVIAL.load(std::sync::atomic::Ordering::Relaxed)),
    );
    ev.set("rule", json!("states = distinct append sequences (entry sizes from the alphabet) up to the depth bound per segment limit; in each state readv is called for every cursor issued so far (closed under reading) x every length, compared with a list; fabricated cursors checked for no-panic only"));
    ev.assumptions = vec![
        "entry sizes limited to the alphabet; read lengths limited to {0,1,2,3,7,1000}".into(),
        "the reference does not model when a segment rotates; it checks what the log reports (tags, head, tail) for consistency".into(),
    ];
    ev.violations = reporter.new_violations();
    let code = reporter.finish();
    ev.write();
    println!(
        "C13 {}: states={} transitions={} reads={} exhaustive={}",
        tier.name(),
        ev.states,
        ev.transitions,
        READS.load(std::sync::atomic::Ordering::Relaxed),
        ev.exhaustive
    );
    code
}

pub fn replay(v: &serde_json::Value) -> i32 {
    let cfg: Cfg = serde_json::from_value(v["cfg"].clone()).unwrap();
    let actions: Vec<Action> = serde_json::from_value(v["actions"].clone()).unwrap();
    let viols = crate::vcore::explore::replay_print::<LogWorld>(&cfg, &actions, true);
    if viols.is_empty() {
        println!("replay: no violation");
        0
    } else {
        println!("replay: {} violation(s) reproduced", viols.len());
        1
    }
}
