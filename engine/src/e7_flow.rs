//! E7 `fullflow` — message flow through the real link layer. Every client is a real
//! per-connection task (`server::remote`: `mqtt_connect`, `RemoteLink::new`,
//! `RemoteLink::start`, `Network::read/readv/writev`, `LinkTx`/`LinkRx`) over an in-memory
//! duplex stream; the real `Router` runs its real loop (`verif_turn` = `run_inner`) on the
//! harness thread. The harness is the set of clients: it writes client-encoded bytes, reads
//! what each task writes, decodes it with the client library of that version, answers
//! PUBREC/PUBREL itself and acknowledges forwards when the script says so.
//!
//! E1 plays the link itself (it pushes into the shared buffers and swaps them); what the
//! link layer does between the socket and those buffers — batching of reads, the
//! `Unschedule`/`Ready` handshake, the conversion and encoding of notifications with the
//! connection's protocol, a reader that is slower than the router — is only executed here.
//! The scripts are small fixed grids (protocol versions x QoS x burst sizes x
//! acknowledgement pacing x transport capacity), each one a deterministic execution: the
//! script moves on only after both threads have gone quiet, and every script is judged at
//! each such boundary.
use crate::e6_fullstack::connect_bytes;
use crate::vcore::Violation;
use crate::wire::{self, Props, Rx, Tx};
use bytes::BytesMut;
use rumqttd::protocol::{v4::V4, v5::V5};
use rumqttd::verif::{verif_remote, VerifWillHandlers};
use rumqttd::{ConnectionSettings, Router, RouterConfig};
use serde::{Deserialize, Serialize};
use std::collections::VecDeque;
use std::sync::atomic::{AtomicBool, AtomicU64, Ordering};
use std::sync::Arc;
use std::time::Duration;
use tokio::io::{AsyncReadExt, AsyncWriteExt};

#[derive(Clone, Debug, Serialize, Deserialize, PartialEq, Eq)]
pub enum FOp {
    /// new connection `c` (CONNECT written, CONNACK awaited); `cap` = capacity of the
    /// in-memory transport in bytes (a small one makes the task's writes block)
    Open { c: usize, v5: bool, clean: bool, cap: usize },
    Sub { c: usize, filter: String, qos: u8 },
    Unsub { c: usize, filter: String },
    /// `n` publishes in one write; `props`: MQTT 5 properties on each (ignored by a 3.1.1 publisher)
    Pub { c: usize, topic: String, qos: u8, n: u16, props: bool },
    Ping { c: usize },
    /// bytes as they are (misbehaviour); the connection is not judged afterwards
    Raw { c: usize, bytes: Vec<u8> },
    /// acknowledge the `n` oldest forwards the client has received and not acknowledged
    Ack { c: usize, n: u16 },
    /// every client acknowledges everything it has, until nothing moves any more
    AckAll,
    /// the client stops / resumes reading its socket
    Stall { c: usize },
    Unstall { c: usize },
    /// the client closes its socket without DISCONNECT
    Close { c: usize },
    Advance(u64),
}

#[derive(Clone, Debug, Serialize, Deserialize)]
pub struct Flow {
    pub name: String,
    pub max_out: usize,
    pub ops: Vec<FOp>,
}

#[derive(Clone, Debug, PartialEq, Eq)]
pub enum Tr {
    Sent(usize, Tx),
    Recv(usize, Rx),
    Eof(usize),
    Undecodable(usize, String),
    OpDone(usize),
}

#[derive(Clone, Debug, Default, PartialEq, Eq)]
pub struct FlowOutcome {
    pub trace: Vec<Tr>,
    pub task_panics: Vec<String>,
    pub router_panic: Option<String>,
    /// a settle phase hit its horizon (something kept moving)
    pub unsettled: bool,
}

struct Conn {
    v5: bool,
    far: Option<tokio::io::DuplexStream>,
    stalled: bool,
    eof: bool,
    rbuf: BytesMut,
    wbuf: Vec<u8>,
    task: Option<tokio::task::JoinHandle<()>>,
    unacked: VecDeque<(u16, u8)>,
    next_pkid: u16,
}

fn props_for(i: u16) -> Props {
    Props {
        pfi: Some(1),
        expiry: None,
        alias: None,
        response_topic: Some("reply/to".into()),
        correlation: Some(vec![7, i as u8]),
        user: vec![("k".into(), format!("v{i}"))],
        sub_ids: vec![],
        content_type: Some("text/plain".into()),
    }
}

fn queue(conn: &mut Conn, c: usize, tx: Tx, trace: &mut Vec<Tr>) {
    match wire::tx_bytes(&tx, conn.v5) {
        Ok(b) => conn.wbuf.extend_from_slice(&b),
        Err(e) => crate::vcore::machinery_error(&format!("E7: cannot encode {tx:?}: {e}")),
    }
    trace.push(Tr::Sent(c, tx));
}

/// one pass over all connections: write what is queued, read what is there, decode, react
fn pump(conns: &mut [Option<Conn>], trace: &mut Vec<Tr>) -> bool {
    let mut progress = false;
    for (c, slot) in conns.iter_mut().enumerate() {
        let Some(conn) = slot.as_mut() else { continue };
        if conn.far.is_none() {
            continue;
        }
        // write
        while !conn.wbuf.is_empty() {
            let f = conn.far.as_mut().unwrap();
            match futures_util::FutureExt::now_or_never(f.write(&conn.wbuf)) {
                Some(Ok(n)) if n > 0 => {
                    conn.wbuf.drain(..n);
                    progress = true;
                }
                Some(Ok(_)) | Some(Err(_)) => {
                    conn.wbuf.clear();
                    break;
                }
                None => break,
            }
        }
        if conn.stalled || conn.eof {
            continue;
        }
        let mut tmp = [0u8; 4096];
        loop {
            let f = conn.far.as_mut().unwrap();
            match futures_util::FutureExt::now_or_never(f.read(&mut tmp)) {
                Some(Ok(0)) | Some(Err(_)) => {
                    conn.eof = true;
                    trace.push(Tr::Eof(c));
                    progress = true;
                    break;
                }
                Some(Ok(n)) => {
                    conn.rbuf.extend_from_slice(&tmp[..n]);
                    progress = true;
                }
                None => break,
            }
        }
        loop {
            match wire::client_decode_one(&mut conn.rbuf, conn.v5) {
                Ok(Some(rx)) => {
                    let mut reply = None;
                    match &rx {
                        Rx::Publish { qos, pkid, .. } if *qos > 0 => conn.unacked.push_back((*pkid, *qos)),
                        Rx::PubRec(id) => reply = Some(Tx::PubRel(*id)),
                        Rx::PubRel(id) => reply = Some(Tx::PubComp(*id)),
                        _ => {}
                    }
                    trace.push(Tr::Recv(c, rx));
                    if let Some(tx) = reply {
                        queue(conn, c, tx, trace);
                    }
                }
                Ok(None) => break,
                Err(e) => {
                    trace.push(Tr::Undecodable(c, e));
                    conn.rbuf.clear();
                    break;
                }
            }
        }
    }
    progress
}

pub fn run_flow(flow: &Flow) -> FlowOutcome {
    let cfg = RouterConfig {
        max_connections: 10,
        max_outgoing_packet_count: flow.max_out as u64,
        max_segment_size: 1 << 20,
        max_segment_count: 10,
        custom_segment: None,
        initialized_filters: None,
        shared_subscriptions_strategy: Default::default(),
    };
    let router = Router::new(0, cfg);
    let tx = router.verif_link();
    let mut router = Some(router);
    let done = Arc::new(AtomicBool::new(false));
    let done2 = done.clone();
    let idle_passes = Arc::new(AtomicU64::new(0));
    let idle2 = idle_passes.clone();
    let flow2 = flow.clone();
    let net = std::thread::spawn(move || {
        // panics of the connection tasks are outcomes, not harness failures
        crate::vcore::IN_CATCH.with(|c| c.set(1));
        let rt = tokio::runtime::Builder::new_current_thread().enable_time().start_paused(true).build().unwrap();
        rt.block_on(async move {
            let conf = Arc::new(ConnectionSettings {
                connection_timeout_ms: 1000,
                max_payload_size: 1 << 16,
                max_inflight_count: 100,
                auth: None,
                external_auth: None,
                dynamic_filters: false,
            });
            let wills = VerifWillHandlers::default();
            let mut conns: Vec<Option<Conn>> = (0..4).map(|_| None).collect();
            let mut trace: Vec<Tr> = vec![];
            let mut unsettled = false;
            let mut panics = vec![];
            // run until nothing moves: tasks polled, router idle twice, nothing to read or write
            macro_rules! settle {
                () => {{
                    let mut quiet = 0;
                    let mut rounds = 0;
                    while quiet < 4 {
                        for _ in 0..40 {
                            tokio::task::yield_now().await;
                        }
                        // the router thread has looked at its channel twice since and found
                        // nothing to do (however long that takes on a loaded machine: a wait
                        // that runs into its limit is not a quiet round)
                        let g0 = idle2.load(Ordering::SeqCst);
                        let mut spins = 0u64;
                        while idle2.load(Ordering::SeqCst) < g0 + 2 {
                            std::thread::sleep(Duration::from_micros(25));
                            spins += 1;
                            if spins > 2_400_000 {
                                crate::vcore::machinery_error("E7: the router thread did not come to rest within a minute");
                            }
                        }
                        if pump(&mut conns, &mut trace) {
                            quiet = 0;
                        } else {
                            quiet += 1;
                        }
                        rounds += 1;
                        if rounds > 30_000 {
                            unsettled = true;
                            break;
                        }
                    }
                }};
            }
            for (i, op) in flow2.ops.iter().enumerate() {
                match op {
                    FOp::Open { c, v5, clean, cap } => {
                        let (near, far) = tokio::io::duplex(*cap);
                        let task = if *v5 {
                            tokio::spawn(verif_remote(conf.clone(), None, tx.clone(), Box::new(near), V5, wills.clone()))
                        } else {
                            tokio::spawn(verif_remote(conf.clone(), None, tx.clone(), Box::new(near), V4, wills.clone()))
                        };
                        let mut conn = Conn { v5: *v5, far: Some(far), stalled: false, eof: false, rbuf: BytesMut::new(), wbuf: vec![], task: Some(task), unacked: VecDeque::new(), next_pkid: 1 };
                        conn.wbuf = connect_bytes(*v5, 600, &format!("c{c}"), *clean, 0);
                        conns[*c] = Some(conn);
                    }
                    FOp::Sub { c, filter, qos } => {
                        if let Some(conn) = conns[*c].as_mut() {
                            let pkid = conn.next_pkid;
                            conn.next_pkid += 1;
                            queue(conn, *c, Tx::Subscribe { pkid, filters: vec![(filter.clone(), *qos)], sub_id: None }, &mut trace);
                        }
                    }
                    FOp::Unsub { c, filter } => {
                        if let Some(conn) = conns[*c].as_mut() {
                            let pkid = conn.next_pkid;
                            conn.next_pkid += 1;
                            queue(conn, *c, Tx::Unsubscribe { pkid, filters: vec![filter.clone()] }, &mut trace);
                        }
                    }
                    FOp::Pub { c, topic, qos, n, props } => {
                        if let Some(conn) = conns[*c].as_mut() {
                            for k in 0..*n {
                                let pkid = if *qos == 0 {
                                    0
                                } else {
                                    let p = conn.next_pkid;
                                    conn.next_pkid += 1;
                                    p
                                };
                                let payload = format!("{i}.{k}").into_bytes();
                                let pr = if *props && conn.v5 { Some(props_for(k)) } else { None };
                                queue(conn, *c, Tx::Publish { topic: topic.clone(), qos: *qos, retain: false, dup: false, pkid, payload, props: pr }, &mut trace);
                            }
                        }
                    }
                    FOp::Ping { c } => {
                        if let Some(conn) = conns[*c].as_mut() {
                            queue(conn, *c, Tx::PingReq, &mut trace);
                        }
                    }
                    FOp::Raw { c, bytes } => {
                        if let Some(conn) = conns[*c].as_mut() {
                            queue(conn, *c, Tx::Raw(bytes.clone()), &mut trace);
                        }
                    }
                    FOp::Ack { c, n } => {
                        if let Some(conn) = conns[*c].as_mut() {
                            for _ in 0..*n {
                                let Some((id, q)) = conn.unacked.pop_front() else { break };
                                queue(conn, *c, if q == 1 { Tx::PubAck(id) } else { Tx::PubRec(id) }, &mut trace);
                            }
                        }
                    }
                    FOp::AckAll => {
                        for _ in 0..60 {
                            let mut any = false;
                            for (c, slot) in conns.iter_mut().enumerate() {
                                let Some(conn) = slot.as_mut() else { continue };
                                if conn.far.is_none() || conn.stalled || conn.eof {
                                    continue;
                                }
                                while let Some((id, q)) = conn.unacked.pop_front() {
                                    queue(conn, c, if q == 1 { Tx::PubAck(id) } else { Tx::PubRec(id) }, &mut trace);
                                    any = true;
                                }
                            }
                            if !any {
                                break;
                            }
                            settle!();
                        }
                    }
                    FOp::Stall { c } => {
                        if let Some(conn) = conns[*c].as_mut() {
                            conn.stalled = true;
                        }
                    }
                    FOp::Unstall { c } => {
                        if let Some(conn) = conns[*c].as_mut() {
                            conn.stalled = false;
                        }
                    }
                    FOp::Close { c } => {
                        if let Some(conn) = conns[*c].as_mut() {
                            if let Some(mut f) = conn.far.take() {
                                let _ = f.shutdown().await;
                                drop(f);
                            }
                        }
                    }
                    FOp::Advance(ms) => tokio::time::advance(Duration::from_millis(*ms)).await,
                }
                settle!();
                trace.push(Tr::OpDone(i));
            }
            for slot in conns.iter_mut() {
                if let Some(conn) = slot.as_mut() {
                    if let Some(t) = conn.task.take() {
                        if t.is_finished() {
                            if let Err(e) = t.await {
                                if e.is_panic() {
                                    let loc = crate::vcore::LAST_PANIC_LOCATION.with(|l| l.borrow_mut().take());
                                    panics.push(format!("{e:?} @ {loc:?}"));
                                }
                            }
                        } else {
                            t.abort();
                        }
                    }
                }
            }
            done2.store(true, Ordering::SeqCst);
            (trace, panics, unsettled)
        })
    });
    let mut router_panic = None;
    let mut idle_after_done = 0;
    let mut spins = 0u64;
    loop {
        let progressed = match router.as_mut() {
            None => false,
            Some(r) => match crate::vcore::catch(|| r.verif_turn()) {
                Ok(b) => b,
                Err(e) => {
                    router_panic = Some(e);
                    // a dead router thread drops its channel: links blocked on it wake up
                    router = None;
                    false
                }
            },
        };
        if !progressed {
            if done.load(Ordering::SeqCst) {
                idle_after_done += 1;
                if idle_after_done > 3 {
                    break;
                }
            }
            idle_passes.fetch_add(1, Ordering::SeqCst);
            std::thread::sleep(Duration::from_micros(25));
        }
        spins += 1;
        if spins > 4_000_000 {
            crate::vcore::machinery_error("E7 watchdog: the script did not finish");
        }
    }
    let (trace, task_panics, unsettled) = match net.join() {
        Ok(r) => r,
        Err(_) => crate::vcore::machinery_error("E7: the client thread panicked"),
    };
    FlowOutcome { trace, task_panics, router_panic, unsettled }
}

// ------------------------------------------------------------------------------------
// oracle
// ------------------------------------------------------------------------------------

#[derive(Default)]
struct CM {
    v5: bool,
    open: bool,
    judged: bool,
    closed_by_script: bool,
    stalled: bool,
    /// (filter, qos) in force (SUBACK received)
    subs: Vec<(String, u8)>,
    pending_subs: Vec<(u16, String, u8)>,
    /// per filter (one log each; no order is promised across filters):
    /// (topic, payload, qos of the subscription, publisher's properties), and how many arrived
    expected: std::collections::BTreeMap<String, (Vec<(String, Vec<u8>, u8, Option<Props>)>, usize)>,
    outstanding: Vec<u16>,
    replies: VecDeque<Rx>,
    rels_owed: Vec<u16>,
}

pub fn judge(prop: &'static str, flow: &Flow, o: &FlowOutcome) -> Vec<Violation> {
    let mut v = vec![];
    let ctx = format!("full-stack flow '{}'", flow.name);
    for p in o.task_panics.iter() {
        v.push(Violation::new(prop, "connection_task_panic", format!("{ctx}: {p}")));
    }
    if let Some(p) = &o.router_panic {
        v.push(Violation::new(prop, "router_panic", format!("{ctx}: {p}")));
    }
    if !v.is_empty() {
        return v;
    }
    let mut cm: Vec<CM> = (0..4).map(|_| CM::default()).collect();
    let mut op_idx = 0usize;
    let bad = |code: &str, d: String, v: &mut Vec<Violation>| {
        if v.len() < 4 {
            v.push(Violation::new(prop, code, format!("{ctx}: {d}")));
        }
    };
    // the script's own declarations (open / stall / close) take effect at the op they belong to
    let apply_op = |cm: &mut Vec<CM>, op: &FOp| match op {
        FOp::Open { c, v5, .. } => {
            cm[*c] = CM { v5: *v5, open: true, judged: true, ..Default::default() };
        }
        FOp::Raw { c, .. } => cm[*c].judged = false,
        FOp::Stall { c } => cm[*c].stalled = true,
        FOp::Unstall { c } => cm[*c].stalled = false,
        FOp::Close { c } => {
            cm[*c].closed_by_script = true;
            cm[*c].open = false;
        }
        _ => {}
    };
    if let Some(op) = flow.ops.first() {
        apply_op(&mut cm, op);
    }
    for t in o.trace.iter() {
        match t {
            Tr::OpDone(i) => {
                op_idx = i + 1;
                if let Some(op) = flow.ops.get(op_idx) {
                    apply_op(&mut cm, op);
                }
            }
            Tr::Sent(c, tx) => match tx {
                Tx::Publish { topic, qos, pkid, payload, props, .. } => {
                    for s in 0..cm.len() {
                        if !cm[s].open {
                            continue;
                        }
                        let subs = cm[s].subs.clone();
                        for (f, sq) in subs.iter() {
                            if rumqttc::matches(topic, f) {
                                cm[s].expected.entry(f.clone()).or_default().0.push((topic.clone(), payload.clone(), *sq, props.clone()));
                            }
                        }
                    }
                    match qos {
                        1 => cm[*c].replies.push_back(Rx::PubAck(*pkid)),
                        2 => cm[*c].replies.push_back(Rx::PubRec(*pkid)),
                        _ => {}
                    }
                }
                Tx::PubRel(id) => cm[*c].replies.push_back(Rx::PubComp(*id)),
                Tx::Subscribe { pkid, filters, .. } => {
                    cm[*c].replies.push_back(Rx::SubAck { pkid: *pkid, codes: filters.iter().map(|f| f.1).collect() });
                    for (f, q) in filters.iter() {
                        cm[*c].pending_subs.push((*pkid, f.clone(), *q));
                    }
                }
                Tx::Unsubscribe { pkid, filters } => {
                    cm[*c].replies.push_back(Rx::UnsubAck { pkid: *pkid });
                    // from here on messages on the filter may or may not arrive; the scripts
                    // publish on it again only after the UNSUBACK
                    cm[*c].subs.retain(|(f, _)| !filters.contains(f));
                }
                Tx::PingReq => cm[*c].replies.push_back(Rx::PingResp),
                Tx::PubAck(id) => cm[*c].outstanding.retain(|x| x != id),
                Tx::PubRec(id) => {
                    cm[*c].outstanding.retain(|x| x != id);
                    cm[*c].rels_owed.push(*id);
                }
                _ => {}
            },
            Tr::Recv(c, rx) => {
                let m = &mut cm[*c];
                if !m.judged {
                    continue;
                }
                let who = format!("c{c} (MQTT {})", if m.v5 { 5 } else { 4 });
                match rx {
                    Rx::ConnAck { ok, .. } => {
                        if !*ok {
                            bad("connack_not_success", format!("{who}: CONNECT refused"), &mut v);
                        }
                    }
                    Rx::Publish { topic, qos, pkid, payload, props, retain, .. } => {
                        // the next message owed on one of the filters that match the topic
                        let hit = m.expected.iter().find(|(_, (list, got))| list.get(*got).is_some_and(|e| &e.0 == topic && &e.1 == payload)).map(|(f, _)| f.clone());
                        match hit {
                            Some(f) => {
                                let (list, got) = m.expected.get_mut(&f).unwrap();
                                let (_, _, sq, pp) = &list[*got];
                                if *qos != *sq {
                                    bad("forward_qos", format!("{who}: forward of {topic} {:?} at QoS {qos}, the subscription was granted QoS {sq}", String::from_utf8_lossy(payload)), &mut v);
                                }
                                if *retain {
                                    bad("retained_flag_unexpected", format!("{who}: live forward of {topic} flagged retained"), &mut v);
                                }
                                if m.v5 {
                                    let want = pp.as_ref().map(|p| p.end_to_end()).filter(|p| !p.is_empty());
                                    let have = props.as_ref().map(|p| p.end_to_end()).filter(|p| !p.is_empty());
                                    if want != have {
                                        bad("props_not_preserved", format!("{who}: forward of {topic}: publisher's properties {want:?}, subscriber got {have:?}"), &mut v);
                                    }
                                }
                                *got += 1;
                            }
                            None => {
                                let seen = m.expected.values().any(|(list, got)| list[..*got].iter().any(|e| &e.0 == topic && &e.1 == payload));
                                let owed = m.expected.values().any(|(list, got)| list[*got..].iter().any(|e| &e.0 == topic && &e.1 == payload));
                                let code = if seen || owed { "unexpected_forward" } else { "spurious_forward" };
                                let next: Vec<_> = m.expected.iter().map(|(f, (list, got))| (f.clone(), list.get(*got).map(|e| String::from_utf8_lossy(&e.1).to_string()))).collect();
                                bad(
                                    code,
                                    format!("{who}: got {topic} {:?} (QoS {qos}, id {pkid}){}; next owed per filter {:?}", String::from_utf8_lossy(payload), if seen { " a second time" } else if owed { " out of order" } else { ", which no subscription explains" }, next),
                                    &mut v,
                                );
                                return v;
                            }
                        }
                        if *qos > 0 {
                            if *pkid == 0 {
                                bad("forward_pkid_zero", format!("{who}: QoS {qos} forward with packet id 0"), &mut v);
                            }
                            if m.outstanding.contains(pkid) {
                                bad("forward_pkid_reused", format!("{who}: packet id {pkid} used for a second unacknowledged forward"), &mut v);
                            }
                            m.outstanding.push(*pkid);
                            if m.outstanding.len() > 100 {
                                bad("window_exceeded", format!("{who}: {} forwards received and not acknowledged", m.outstanding.len()), &mut v);
                            }
                        }
                    }
                    Rx::PubRel(id) => {
                        if let Some(k) = m.rels_owed.iter().position(|x| x == id) {
                            m.rels_owed.remove(k);
                        } else {
                            bad("unexpected_release", format!("{who}: PUBREL {id} without a PUBREC of ours"), &mut v);
                        }
                    }
                    Rx::Disconnect(r) => bad("unexpected_close", format!("{who}: broker sent DISCONNECT ({r}) to a well-behaved client"), &mut v),
                    Rx::Other(s) => bad("unexpected_reply", format!("{who}: got {s}"), &mut v),
                    reply => {
                        if let Rx::SubAck { pkid, codes } = reply {
                            // the grant is what the SUBACK says
                            let pend: Vec<_> = m.pending_subs.iter().filter(|p| p.0 == *pkid).cloned().collect();
                            m.pending_subs.retain(|p| p.0 != *pkid);
                            for (k, (_, f, _)) in pend.iter().enumerate() {
                                match codes.get(k) {
                                    Some(g) if *g <= 2 => {
                                        m.subs.retain(|(sf, _)| sf != f);
                                        m.subs.push((f.clone(), *g));
                                    }
                                    _ => {}
                                }
                            }
                        }
                        let matches_head = match (m.replies.front(), reply) {
                            (Some(Rx::SubAck { pkid: a, codes: ca }), Rx::SubAck { pkid: b, codes: cb }) => a == b && ca.len() == cb.len(),
                            (Some(a), b) => a == b,
                            (None, _) => false,
                        };
                        if matches_head {
                            m.replies.pop_front();
                        } else {
                            bad("unexpected_reply", format!("{who}: got {reply:?}, next reply owed is {:?}", m.replies.front()), &mut v);
                            return v;
                        }
                    }
                }
            }
            Tr::Eof(c) => {
                let m = &mut cm[*c];
                if m.judged && !m.closed_by_script {
                    bad("unexpected_close", format!("c{c}: the broker closed the connection of a well-behaved client (during op {op_idx}: {:?})", flow.ops.get(op_idx)), &mut v);
                }
                m.open = false;
            }
            Tr::Undecodable(c, e) => {
                if cm[*c].judged {
                    bad("client_cannot_decode", format!("c{c} (MQTT {}): {e}", if cm[*c].v5 { 5 } else { 4 }), &mut v);
                }
            }
        }
    }
    if o.unsettled {
        bad("livelock", "the broker and its links kept exchanging data without end".to_string(), &mut v);
    }
    // a script that ends with AckAll has let everything drain
    if matches!(flow.ops.last(), Some(FOp::AckAll)) {
        for (c, m) in cm.iter().enumerate() {
            if !m.judged || !m.open || m.stalled {
                continue;
            }
            for (f, (list, got)) in m.expected.iter() {
                if *got < list.len() {
                    let e = &list[*got];
                    bad("undelivered", format!("c{c} (MQTT {}), filter {f}: {} of {} matching messages arrived; first missing {} {:?}; everything was acknowledged and the broker is idle", if m.v5 { 5 } else { 4 }, got, list.len(), e.0, String::from_utf8_lossy(&e.1)), &mut v);
                }
            }
            if let Some(r) = m.replies.front() {
                bad("missing_reply", format!("c{c} (MQTT {}): {} replies still owed, first {:?}", if m.v5 { 5 } else { 4 }, m.replies.len(), r), &mut v);
            }
            if let Some(r) = m.rels_owed.first() {
                bad("release_missing", format!("c{c}: PUBREC {r} sent, no PUBREL came"), &mut v);
            }
        }
    }
    v
}

// ------------------------------------------------------------------------------------
// the grids
// ------------------------------------------------------------------------------------

fn open(c: usize, v5: bool, cap: usize) -> FOp {
    FOp::Open { c, v5, clean: true, cap }
}

const BIG: usize = 1 << 16;

pub fn flows(prop: &str, thorough: bool) -> Vec<Flow> {
    let mut out = vec![];
    let vers = [(false, false), (false, true), (true, false), (true, true)];
    let mut push = |name: String, max_out: usize, ops: Vec<FOp>| out.push(Flow { name, max_out, ops });
    // (1) version matrix x QoS x properties: one message each way, acknowledged
    if matches!(prop, "C20" | "C01" | "C06") {
        for (pv, sv) in vers {
            for pq in 0..3u8 {
                for sq in 0..3u8 {
                    if !thorough && prop != "C20" && pq != sq {
                        continue;
                    }
                    push(
                        format!("publisher v{} QoS {pq} -> subscriber v{} QoS {sq}, with and without properties", if pv { 5 } else { 4 }, if sv { 5 } else { 4 }),
                        200,
                        vec![
                            open(0, pv, BIG),
                            open(1, sv, BIG),
                            FOp::Sub { c: 1, filter: "a/+".into(), qos: sq },
                            FOp::Pub { c: 0, topic: "a/b".into(), qos: pq, n: 2, props: true },
                            FOp::Pub { c: 0, topic: "a/c".into(), qos: pq, n: 1, props: false },
                            FOp::Ping { c: 0 },
                            FOp::Pub { c: 0, topic: "x".into(), qos: pq, n: 1, props: false },
                            FOp::AckAll,
                        ],
                    );
                }
            }
        }
    }
    // (2) window and backlog: bursts x pacing of the acknowledgements
    if matches!(prop, "C09" | "C01" | "C06") {
        let bursts: &[u16] = if thorough { &[3, 100, 101, 205, 450] } else { &[101, 250] };
        for &n in bursts {
            for sq in [1u8, 2] {
                for (sv, pacing) in [(false, 0u8), (true, 1), (false, 2), (true, 2)] {
                    let mut ops = vec![open(0, false, BIG), open(1, sv, BIG), FOp::Sub { c: 1, filter: "t".into(), qos: sq }, FOp::Pub { c: 0, topic: "t".into(), qos: 1, n, props: false }];
                    match pacing {
                        // one by one for a while, then the rest
                        0 => {
                            for _ in 0..3 {
                                ops.push(FOp::Ack { c: 1, n: 1 });
                            }
                        }
                        // in blocks
                        1 => {
                            ops.push(FOp::Ack { c: 1, n: 50 });
                            ops.push(FOp::Ack { c: 1, n: 50 });
                        }
                        // a second filter with its own backlog next to the first
                        _ => {
                            ops.insert(3, FOp::Sub { c: 1, filter: "u".into(), qos: sq });
                            ops.push(FOp::Pub { c: 0, topic: "u".into(), qos: 0, n: 5, props: false });
                            ops.push(FOp::Ack { c: 1, n: 100 });
                        }
                    }
                    ops.push(FOp::AckAll);
                    push(format!("burst of {n} to a QoS {sq} subscriber (v{}), pacing {pacing}", if sv { 5 } else { 4 }), 200, ops);
                }
            }
        }
    }
    // (3) a reader slower than the router: small transport, stalled, then resumed
    if matches!(prop, "C09" | "C14" | "C01") {
        for sv in [false, true] {
            for (sq, n, max_out) in [(0u8, 450u16, 200usize), (1, 250, 200), (0, 60, 10), (1, 30, 10)] {
                if !thorough && sv && max_out == 10 {
                    continue;
                }
                push(
                    format!("stalled v{} subscriber (QoS {sq}) behind a 64-byte transport, burst {n}, buffer {max_out}; a second subscriber keeps reading", if sv { 5 } else { 4 }),
                    max_out,
                    vec![
                        open(0, false, BIG),
                        open(1, sv, 64),
                        open(2, false, BIG),
                        FOp::Sub { c: 1, filter: "t".into(), qos: sq },
                        FOp::Sub { c: 2, filter: "t".into(), qos: 1 },
                        FOp::Stall { c: 1 },
                        FOp::Pub { c: 0, topic: "t".into(), qos: 1, n, props: false },
                        FOp::AckAll,
                        FOp::Pub { c: 0, topic: "t".into(), qos: 0, n: 3, props: false },
                        FOp::Unstall { c: 1 },
                        FOp::AckAll,
                    ],
                );
            }
        }
    }
    // (4) misbehaving neighbours through the real link: garbage, bad acknowledgement, abrupt
    // close in the middle of a frame, slot reuse — the pair p/s must not notice
    if matches!(prop, "C14" | "C03" | "C06") {
        let bad: Vec<(&str, Vec<u8>)> = vec![
            ("undecodable frame", vec![0x00, 0x00]),
            ("unsolicited PUBACK", vec![0x40, 0x02, 0x03, 0xe7]),
            ("PUBREL for nothing", vec![0x62, 0x02, 0x03, 0xe7]),
            ("second CONNECT", connect_bytes(false, 600, "c2", true, 0)),
            ("half a PUBLISH", vec![0x32, 0x40, 0x00, 0x01, b't']),
            ("SUBSCRIBE without filters", vec![0x82, 0x02, 0x00, 0x01]),
            ("publish on z then an unsolicited PUBCOMP in one write", vec![0x30, 0x04, 0x00, 0x01, b'z', b'!', 0x70, 0x02, 0x00, 0x09]),
        ];
        for (name, bytes) in bad {
            for mv in [false, true] {
                if !thorough && mv && name != "unsolicited PUBACK" {
                    continue;
                }
                push(
                    format!("neighbour (v{}) sends {name}, closes, a newcomer takes its slot", if mv { 5 } else { 4 }),
                    200,
                    vec![
                        open(0, false, BIG),
                        open(1, true, BIG),
                        FOp::Sub { c: 1, filter: "t".into(), qos: 1 },
                        open(2, mv, BIG),
                        FOp::Sub { c: 2, filter: "t".into(), qos: 1 },
                        FOp::Pub { c: 0, topic: "t".into(), qos: 1, n: 2, props: false },
                        FOp::Raw { c: 2, bytes: bytes.clone() },
                        FOp::Pub { c: 0, topic: "t".into(), qos: 2, n: 2, props: false },
                        FOp::Close { c: 2 },
                        open(3, false, BIG),
                        FOp::Sub { c: 3, filter: "t".into(), qos: 0 },
                        FOp::Pub { c: 0, topic: "t".into(), qos: 1, n: 2, props: false },
                        FOp::Advance(10),
                        FOp::AckAll,
                    ],
                );
            }
        }
    }
    // (5) requests of one client in one write: every reply, in order, through the link
    if matches!(prop, "C06") {
        for v5 in [false, true] {
            push(
                format!("v{}: subscribe, publishes of every QoS to itself, ping, unsubscribe, publish again", if v5 { 5 } else { 4 }),
                200,
                vec![
                    open(0, v5, BIG),
                    FOp::Sub { c: 0, filter: "s/#".into(), qos: 2 },
                    FOp::Pub { c: 0, topic: "s/1".into(), qos: 1, n: 3, props: false },
                    FOp::Pub { c: 0, topic: "s/2".into(), qos: 2, n: 3, props: true },
                    FOp::Ping { c: 0 },
                    FOp::Pub { c: 0, topic: "s/3".into(), qos: 0, n: 3, props: false },
                    FOp::AckAll,
                    FOp::Unsub { c: 0, filter: "s/#".into() },
                    FOp::Pub { c: 0, topic: "s/1".into(), qos: 1, n: 2, props: false },
                    FOp::Ping { c: 0 },
                    FOp::AckAll,
                ],
            );
        }
    }
    out
}

// ------------------------------------------------------------------------------------
// driver
// ------------------------------------------------------------------------------------

/// Run the flows of `prop`; violations go to the reporter, counts into the evidence.
pub fn run_part(prop: &'static str, tier: crate::vcore::Tier, reporter: &crate::vcore::findings::Reporter, ev: &mut crate::vcore::evidence::Evidence) {
    use rayon::prelude::*;
    use serde_json::json;
    let fl = flows(prop, tier == crate::vcore::Tier::Thorough);
    if fl.is_empty() {
        return;
    }
    let t_start = std::time::Instant::now();
    if std::env::var("VERIF_E7_DEBUG").is_ok() {
        for f in fl.iter() {
            let t = std::time::Instant::now();
            let o = run_flow(f);
            let viols = judge(prop, f, &o);
            println!("E7 {:?} '{}': {} trace entries, unsettled={}, violations {:?}", t.elapsed(), f.name, o.trace.len(), o.unsettled, viols.iter().map(|v| (&v.code, &v.detail)).collect::<Vec<_>>());
        }
        std::process::exit(0);
    }
    let results: Vec<(usize, usize, usize)> = fl
        .par_iter()
        .map(|f| {
            let o = run_flow(f);
            let viols = judge(prop, f, &o);
            if !viols.is_empty() {
                // a verdict only for an execution that repeats
                let o2 = run_flow(f);
                if judge(prop, f, &o2) != viols {
                    crate::vcore::machinery_error(&format!("E7: flow '{}' is not deterministic", f.name));
                }
            }
            for v in viols.iter() {
                reporter.report(v, || json!({"engine": "e7_flow", "prop": prop, "flow": f}));
            }
            let fw = o.trace.iter().filter(|t| matches!(t, Tr::Recv(_, Rx::Publish { .. }))).count();
            let steps = o.trace.len();
            (fw, steps, f.ops.len())
        })
        .collect();
    let forwards: usize = results.iter().map(|r| r.0).sum();
    if forwards == 0 {
        crate::vcore::machinery_error("E7: vacuous flows (no forward was ever received)");
    }
    ev.states += results.iter().map(|r| r.2 as u64).sum::<u64>();
    ev.transitions += results.iter().map(|r| r.1 as u64).sum::<u64>();
    ev.traces_validated += fl.len() as u64;
    ev.set("fullstack_flows", json!({"wall_s": t_start.elapsed().as_secs_f64(), "flows": fl.len(), "script_steps": results.iter().map(|r| r.2).sum::<usize>(), "packets_exchanged": results.iter().map(|r| r.1).sum::<usize>(), "forwards_received": forwards, "names": fl.iter().map(|f| f.name.clone()).collect::<Vec<_>>()}));
    ev.assumptions.push("the full-stack flows run every client through the real remote() task over in-memory duplex streams with the real router loop on a second thread; each script step waits until both sides are quiet, so the schedules covered are those in which the router and the links run to quiescence between client actions (what happens inside is real concurrency, judged only through per-connection packet sequences)".into());
}

pub fn replay(v: &serde_json::Value) -> i32 {
    let f: Flow = serde_json::from_value(v["flow"].clone()).unwrap();
    let prop: &'static str = Box::leak(v["prop"].as_str().unwrap_or("C01").to_string().into_boxed_str());
    let mut last: Option<Vec<Violation>> = None;
    for _ in 0..2 {
        let o = run_flow(&f);
        let viols = judge(prop, &f, &o);
        println!("flow '{}': {} trace entries, {} task panics, router panic {:?}", f.name, o.trace.len(), o.task_panics.len(), o.router_panic);
        if std::env::var("VERIF_TRACE").is_ok() {
            for t in o.trace.iter() {
                println!("    {t:?}");
            }
        }
        if let Some(prev) = &last {
            if *prev != viols {
                crate::vcore::machinery_error("E7 replay is not deterministic");
            }
        }
        last = Some(viols);
    }
    let viols = last.unwrap();
    for v in viols.iter() {
        println!("  !! {} {}: {}", v.property, v.code, v.detail);
    }
    if viols.is_empty() {
        println!("replay: no violation");
        0
    } else {
        println!("replay: {} violation(s) reproduced", viols.len());
        1
    }
}

// ------------------------------------------------------------------------------------
// embedded links: the public `LinkBuilder` / `LinkTx` / `LinkRx` API of link/local.rs
// ------------------------------------------------------------------------------------
//
// An application that embeds the broker talks to the router through `LinkTx::publish /
// subscribe / unsubscribe` and `LinkRx::recv` (blocking) — code that neither the stepped
// router of E1 (it owns the shared buffers itself) nor the connection tasks above (they use
// `buffer()`, `notify()`, `exchange()`, `wake()`) execute. Here the router runs its real loop
// on a second thread and this thread is the application.

#[derive(Clone, Debug, Serialize, Deserialize)]
pub struct Embedded {
    /// messages published on the subscribed topic
    pub n: usize,
    /// 0 `publish` + `recv`, 1 `try_publish` + `recv_deadline`
    pub api: u8,
    /// a second subscriber on `t/+`
    pub second: bool,
    /// unsubscribe afterwards and publish again (nothing more may arrive)
    pub unsub: bool,
}

pub fn embedded_cases(thorough: bool) -> Vec<Embedded> {
    let mut v = vec![];
    let ns: &[usize] = if thorough { &[1, 3, 199, 200, 250, 450, 1000] } else { &[3, 250, 450] };
    for &n in ns {
        for api in [0u8, 1] {
            for second in [false, true] {
                for unsub in [false, true] {
                    if !thorough && second && unsub {
                        continue;
                    }
                    v.push(Embedded { n, api, second, unsub });
                }
            }
        }
    }
    v
}

/// Returns the violations (code, detail) of one embedded scenario.
pub fn run_embedded(prop: &'static str, e: &Embedded) -> Vec<Violation> {
    use rumqttd::local::LinkBuilder;
    use rumqttd::Notification;
    let cfg = RouterConfig {
        max_connections: 10,
        max_outgoing_packet_count: 200,
        max_segment_size: 1 << 20,
        max_segment_count: 10,
        custom_segment: None,
        initialized_filters: None,
        shared_subscriptions_strategy: Default::default(),
    };
    let mut router = Router::new(0, cfg);
    let tx = router.verif_link();
    let stop = Arc::new(AtomicBool::new(false));
    let stop2 = stop.clone();
    let rt = std::thread::spawn(move || {
        let mut panic = None;
        while !stop2.load(Ordering::SeqCst) {
            match crate::vcore::catch(|| router.verif_turn()) {
                Ok(true) => {}
                Ok(false) => std::thread::sleep(Duration::from_micros(20)),
                Err(p) => {
                    // a dead router thread drops its channel: the application's calls fail
                    panic = Some(p);
                    break;
                }
            }
        }
        drop(router);
        panic
    });
    let ctx = format!("embedded links (n={}, api={}, second subscriber={}, unsubscribe={})", e.n, e.api, e.second, e.unsub);
    let mut out: Vec<Violation> = vec![];
    // generous: only a router that has stopped serving runs into it
    let limit = Duration::from_secs(20);
    let body = || -> Result<(), (String, String)> {
        let build = |id: &str| LinkBuilder::new(id, tx.clone()).build().map_err(|e| ("connect_refused".to_string(), format!("link {id}: {e:?}")));
        let (mut ptx, _prx, _) = build("pub")?;
        let (mut stx, mut srx, _) = build("sub")?;
        let mut second = if e.second { Some(build("sub2")?) } else { None };
        // what a subscriber link reads until it has seen `want` forwards (or `until_ack` acks)
        fn collect(rx: &mut rumqttd::local::LinkRx, api: u8, want: usize, acks: usize, limit: Duration) -> Result<(Vec<(String, Vec<u8>)>, usize), (String, String)> {
            let mut got = vec![];
            let mut seen_acks = 0;
            let t0 = std::time::Instant::now();
            while got.len() < want || seen_acks < acks {
                if t0.elapsed() > limit {
                    return Err(("undelivered".into(), format!("{} of {want} forwards and {seen_acks} of {acks} replies arrived, then nothing for the rest of {limit:?}; last {:?}", got.len(), got.last())));
                }
                let n = if api == 0 {
                    // `recv` blocks: a deadline variant with the same body is used as the watchdog
                    rx.recv_deadline(std::time::Instant::now() + Duration::from_millis(200))
                } else {
                    rx.recv_deadline(std::time::Instant::now() + Duration::from_millis(50))
                };
                match n {
                    Ok(Some(Notification::Forward(f))) => got.push((String::from_utf8_lossy(&f.publish.topic).to_string(), f.publish.payload.to_vec())),
                    Ok(Some(Notification::DeviceAck(_))) => seen_acks += 1,
                    Ok(Some(Notification::Unschedule)) => rx.ready().map_err(|e| ("unexpected_close".to_string(), format!("ready(): {e:?}")))?,
                    Ok(Some(other)) => return Err(("unexpected_reply".into(), format!("{other:?}"))),
                    Ok(None) => {}
                    Err(rumqttd::local::LinkError::RecvTimeout(_)) => {}
                    Err(err) => return Err(("unexpected_close".into(), format!("recv: {err:?}"))),
                }
            }
            Ok((got, seen_acks))
        }
        stx.subscribe("t/a").map_err(|e| ("unexpected_close".to_string(), format!("{e:?}")))?;
        collect(&mut srx, e.api, 0, 1, limit)?;
        if let Some((tx2, rx2, _)) = second.as_mut() {
            tx2.subscribe("t/+").map_err(|e| ("unexpected_close".to_string(), format!("{e:?}")))?;
            collect(rx2, e.api, 0, 1, limit)?;
        }
        let mut expect = vec![];
        for k in 0..e.n {
            let payload = format!("m{k}").into_bytes();
            let r = if e.api == 0 { ptx.publish("t/a", payload.clone()) } else { ptx.try_publish("t/a", payload.clone()) };
            match r {
                Ok(_) => expect.push(("t/a".to_string(), payload)),
                // try_publish may find the event channel full: the message is in the buffer
                // all the same and the next event carries it along
                Err(rumqttd::local::LinkError::TrySend(_)) => expect.push(("t/a".to_string(), payload)),
                Err(err) => return Err(("unexpected_close".into(), format!("publish: {err:?}"))),
            }
        }
        // one blocking publish behind a series of try_publish makes sure an event follows the
        // last buffered packet
        ptx.publish("t/z", b"end".to_vec()).map_err(|e| ("unexpected_close".to_string(), format!("{e:?}")))?;
        let (got, _) = collect(&mut srx, e.api, expect.len(), 0, limit)?;
        if got != expect {
            let k = got.iter().zip(expect.iter()).position(|(a, b)| a != b).unwrap_or(got.len().min(expect.len()));
            return Err(("unexpected_forward".into(), format!("subscriber of t/a: forward {k} is {:?}, published was {:?}", got.get(k).map(|g| String::from_utf8_lossy(&g.1).to_string()), expect.get(k).map(|g| String::from_utf8_lossy(&g.1).to_string()))));
        }
        if let Some((_, rx2, _)) = second.as_mut() {
            let mut expect2 = expect.clone();
            expect2.push(("t/z".to_string(), b"end".to_vec()));
            let (got2, _) = collect(rx2, e.api, expect2.len(), 0, limit)?;
            if got2 != expect2 {
                return Err(("unexpected_forward".into(), format!("subscriber of t/+: got {} forwards, they differ from the {} published", got2.len(), expect2.len())));
            }
        }
        if e.unsub {
            stx.unsubscribe("t/a").map_err(|e| ("unexpected_close".to_string(), format!("{e:?}")))?;
            collect(&mut srx, e.api, 0, 1, limit)?;
            ptx.publish("t/a", b"after".to_vec()).map_err(|e| ("unexpected_close".to_string(), format!("{e:?}")))?;
            // a marker through a fresh subscription: what arrives before it was sent before it
            stx.subscribe("t/m").map_err(|e| ("unexpected_close".to_string(), format!("{e:?}")))?;
            collect(&mut srx, e.api, 0, 1, limit)?;
            ptx.publish("t/m", b"marker".to_vec()).map_err(|e| ("unexpected_close".to_string(), format!("{e:?}")))?;
            let (got, _) = collect(&mut srx, e.api, 1, 0, limit)?;
            if got[0].0 != "t/m" {
                return Err(("unexpected_forward".into(), format!("after the UNSUBACK for t/a the subscriber still got {:?}", got[0].0)));
            }
        }
        Ok(())
    };
    let r = crate::vcore::catch(body);
    stop.store(true, Ordering::SeqCst);
    let router_panic = rt.join().unwrap_or(Some("router thread died".into()));
    if let Some(p) = router_panic {
        out.push(Violation::new(prop, "router_panic", format!("{ctx}: {p}")));
        return out;
    }
    match r {
        Ok(Ok(())) => {}
        Ok(Err((code, d))) => out.push(Violation::new(prop, code, format!("{ctx}: {d}"))),
        Err(p) => out.push(Violation::new(prop, "link_api_panic", format!("{ctx}: {p}"))),
    }
    out
}

pub fn run_embedded_part(prop: &'static str, tier: crate::vcore::Tier, reporter: &crate::vcore::findings::Reporter, ev: &mut crate::vcore::evidence::Evidence) {
    use rayon::prelude::*;
    use serde_json::json;
    let cases = embedded_cases(tier == crate::vcore::Tier::Thorough);
    let t_start = std::time::Instant::now();
    let bad: usize = cases
        .par_iter()
        .map(|c| {
            let viols = run_embedded(prop, c);
            if !viols.is_empty() {
                let again = run_embedded(prop, c);
                if again.iter().map(|v| &v.code).collect::<Vec<_>>() != viols.iter().map(|v| &v.code).collect::<Vec<_>>() {
                    crate::vcore::machinery_error("E7 embedded scenario is not deterministic");
                }
            }
            for v in viols.iter() {
                reporter.report(v, || json!({"engine": "e7_embedded", "prop": prop, "case": c}));
            }
            viols.len()
        })
        .sum();
    let _ = bad;
    ev.states += cases.len() as u64;
    ev.transitions += cases.iter().map(|c| c.n as u64 + 6).sum::<u64>();
    ev.traces_validated += cases.len() as u64;
    ev.set("embedded_link_scenarios", json!({"wall_s": t_start.elapsed().as_secs_f64(), "scenarios": cases.len(), "messages": cases.iter().map(|c| c.n).sum::<usize>(), "api": "LinkBuilder::build, LinkTx::{publish, try_publish, subscribe, unsubscribe}, LinkRx::{recv_deadline, ready}"}));
}

pub fn replay_embedded(v: &serde_json::Value) -> i32 {
    let c: Embedded = serde_json::from_value(v["case"].clone()).unwrap();
    let prop: &'static str = Box::leak(v["prop"].as_str().unwrap_or("C01").to_string().into_boxed_str());
    let a = run_embedded(prop, &c);
    let b = run_embedded(prop, &c);
    if a.iter().map(|v| &v.code).collect::<Vec<_>>() != b.iter().map(|v| &v.code).collect::<Vec<_>>() {
        crate::vcore::machinery_error("E7 embedded replay is not deterministic");
    }
    for v in a.iter() {
        println!("  !! {} {}: {}", v.property, v.code, v.detail);
    }
    if a.is_empty() {
        println!("replay: no violation");
        0
    } else {
        println!("replay: {} violation(s) reproduced", a.len());
        1
    }
}
