//! Alphabets, closure, configurations and evidence for the client properties.
use super::v4::V4;
use super::v5::V5;
use super::{CAct, Cfg, ClientWorld, Pk, Proto, UReq};
use crate::vcore::evidence::Evidence;
use crate::vcore::explore::{explore, replay_print, Params};
use crate::vcore::findings::Reporter;
use crate::vcore::Tier;
use serde_json::json;
use std::time::Duration;

fn inbound(qos: u8, pkid: u16, tag: u32) -> Pk {
    Pk::Publish { qos, pkid, tag, dup: false, retain: false, alias: None, topic_empty: false, topic2: false }
}

/// inbound publish that carries a topic alias (MQTT 5): `topic` 0 = empty, 1 = in/x, 2 = in/y
fn inbound_alias(qos: u8, pkid: u16, tag: u32, alias: u16, topic: u8) -> Pk {
    Pk::Publish { qos, pkid, tag, dup: false, retain: false, alias: Some(alias), topic_empty: topic == 0, topic2: topic == 2 }
}

pub fn enabled<P: Proto>(w: &ClientWorld<P>, cfg: &Cfg) -> Vec<(CAct, u8)> {
    let mut v: Vec<(CAct, u8)> = vec![];
    let connected = w.connected();
    let healthy = w.mon.healthy();
    let held = w.held();
    let sent = w.mon.sent_len();
    let unacked = w.mon.unacked_on_wire();
    if w.has_partial() {
        // the rest of a half-written packet arrives, or the connection fails
        v.push((CAct::Rest, 0));
        v.push((CAct::Fail, 1));
        if cfg.prop == "C18" {
            // ... or nothing more arrives and time passes
            v.push((CAct::T(1000), 0));
        }
        return v;
    }
    match cfg.prop.as_str() {
        "C02" | "C07" | "C11" => {
            let cap = cfg.inflight as usize + if cfg.prop == "C11" { 4 } else { 3 };
            if sent < cap + cfg.variant as usize {
                let qs: &[u8] = match (cfg.prop.as_str(), cfg.variant) {
                    ("C11", _) => &[1],
                    (_, 1) => &[2],
                    (_, 2) => &[1, 2],
                    _ => &[1],
                };
                for &q in qs {
                    v.push((CAct::U(UReq::Publish { qos: q }), 0));
                }
                if cfg.prop == "C07" {
                    v.push((CAct::U(UReq::Subscribe), 0));
                    if cfg.variant == 2 {
                        v.push((CAct::U(UReq::Unsubscribe), 0));
                    }
                }
                if cfg.prop == "C11" && cfg.variant == 1 {
                    v.push((CAct::U(UReq::Subscribe), 0));
                }
            }
            if connected && healthy {
                if unacked > 0 || w.mon.open_rels() {
                    v.push((CAct::AckOldest, 0));
                    if cfg.prop == "C02" {
                        // the acknowledgement arrives in two pieces, or only its first half
                        v.push((CAct::PartialAck, 1));
                    }
                }
                if unacked > 1 {
                    v.push((CAct::AckNewest, 1));
                }
                if cfg.v5 && unacked > 0 && cfg.prop != "C11" {
                    v.push((CAct::NackOldest, 1));
                }
                v.push((CAct::Fail, 1));
            }
            if !connected {
                v.push((CAct::Reconnect { sp: true }, 0));
                v.push((CAct::Reconnect { sp: false }, 1));
                if cfg.prop != "C07" && w.mon.errors().len() < 3 {
                    // an attempt the broker refuses: what is carried over must survive it
                    v.push((CAct::ReconnectRefused, 1));
                }
            }
            if cfg.throttle_ms > 0 && (held.pending_pubs.len() + held.pending_rels.len() + held.pending_other) > 0 {
                v.push((CAct::T(cfg.throttle_ms as u32), 0));
                if connected && healthy && cfg.prop != "C07" {
                    // traffic from the broker while the replay waits in its throttle pause
                    // (another arm of the event loop's select wins over the replay)
                    v.push((CAct::B(inbound(0, 0, 900 + sent as u32)), 0));
                }
            }
            if cfg.keep_alive_s > 0 && cfg.variant == 5 && connected && healthy {
                // keep-alive running next to the publish flows: a collision that outlives
                // two pings ends the connection (CollisionTimeout); nothing may be lost
                v.push((CAct::T(cfg.keep_alive_s as u32 * 1000), 0));
                v.push((CAct::B(Pk::PingResp), 0));
            }
        }
        "C10" => {
            if connected && healthy {
                let lim = cfg.inflight;
                match cfg.variant {
                    0 => {
                        for q in 0..3u8 {
                            for id in [1u16, 2] {
                                v.push((CAct::B(inbound(q, if q == 0 { 0 } else { id }, 100 + q as u32 * 10 + id as u32)), 0));
                                if q == 2 && id == 1 {
                                    // the broker's re-delivery of a QoS 2 publish (DUP set): answered like the first
                                    v.push((CAct::B(Pk::Publish { qos: 2, pkid: id, tag: 100 + q as u32 * 10 + id as u32, dup: true, retain: false, alias: None, topic_empty: false, topic2: false }), 1));
                                }
                            }
                        }
                        if cfg.v5 {
                            // topic aliases: establish 1 -> in/x, re-map 1 -> in/y, use it with
                            // an empty topic, use alias 2 that is never established
                            v.push((CAct::B(inbound_alias(0, 0, 120, 1, 1)), 0));
                            v.push((CAct::B(inbound_alias(1, 1, 121, 1, 2)), 0));
                            v.push((CAct::B(inbound_alias(0, 0, 122, 1, 0)), 0));
                            v.push((CAct::B(inbound_alias(1, 2, 123, 1, 0)), 0));
                            v.push((CAct::B(inbound_alias(0, 0, 124, 2, 0)), 0));
                            v.push((CAct::B(inbound_alias(1, 2, 125, 2, 0)), 0));
                        }
                        v.push((CAct::B(Pk::PubRel(1, 0)), 0));
                        v.push((CAct::B(Pk::PubRel(2, 0)), 0));
                        if cfg.v5 {
                            // a release that carries a reason code other than success
                            v.push((CAct::B(Pk::PubRel(1, 0x92)), 0));
                        }
                        v.push((CAct::B(Pk::PingResp), 0));
                        v.push((CAct::B(Pk::SubAck(1)), 0));
                        v.push((CAct::B(Pk::UnsubAck(1)), 0));
                        // the connection is lost in the middle of the inbound flows
                        if w.mon.errors().len() < 2 {
                            v.push((CAct::Fail, 1));
                        }
                        // user requests in between: their writes are announced as well
                        if sent < 2 {
                            v.push((CAct::U(UReq::Subscribe), 0));
                            v.push((CAct::U(UReq::Unsubscribe), 0));
                            v.push((CAct::U(UReq::Publish { qos: 1 }), 0));
                            v.push((CAct::U(UReq::Disconnect), 0));
                        }
                    }
                    1 => {
                        // unsolicited / repeated acknowledgements, ids above the limit
                        for id in [1u16, lim, lim + 1, 65535] {
                            v.push((CAct::B(Pk::PubAck(id, 0)), 1));
                            v.push((CAct::B(Pk::PubRec(id, 0)), 1));
                            v.push((CAct::B(Pk::PubComp(id, 0)), 1));
                        }
                        v.push((CAct::B(Pk::PubRel(7, 0)), 1));
                        if sent < 3 {
                            v.push((CAct::U(UReq::Publish { qos: 1 }), 0));
                            v.push((CAct::U(UReq::Publish { qos: 2 }), 0));
                        }
                        if unacked > 0 || w.mon.open_rels() {
                            v.push((CAct::AckOldest, 0));
                        }
                        v.push((CAct::B(inbound(1, 65535, 400)), 0));
                        v.push((CAct::B(inbound(2, lim + 1, 401)), 0));
                        // the largest packet id in an inbound QoS 2 flow
                        v.push((CAct::B(inbound(2, 65535, 402)), 0));
                        v.push((CAct::B(Pk::PubRel(65535, 0)), 0));
                        // a publish that has to be answered and, in the same read batch, a
                        // packet that ends the connection with an error
                        v.push((CAct::Batch(vec![inbound(1, 1, 410), Pk::PubAck(lim + 1, 0)]), 1));
                        v.push((CAct::Batch(vec![inbound(2, 2, 411), Pk::PubComp(lim + 1, 0)]), 1));
                        if cfg.v5 {
                            v.push((CAct::Batch(vec![inbound(1, 1, 412), Pk::Disconnect]), 1));
                        }
                        // packets a broker never sends in mid-session
                        v.push((CAct::B(Pk::PingReq), 1));
                        v.push((CAct::B(Pk::Subscribe(1)), 1));
                        v.push((CAct::B(Pk::Unsubscribe(1)), 1));
                        v.push((CAct::B(Pk::ConnAck { sp: false, code: 0, recv_max: None, server_ka: None }), 1));
                    }
                    2 => {
                        // read batches around the 10-packet limit, and a half-written packet
                        for n in [9u32, 10, 11, 21] {
                            let pks: Vec<Pk> = (0..n).map(|i| inbound(1, (i + 1) as u16, 500 + i)).collect();
                            v.push((CAct::Batch(pks), 0));
                        }
                        v.push((CAct::Batch(vec![inbound(2, 1, 600), Pk::PubRel(1, 0), inbound(0, 0, 601)]), 0));
                        v.push((CAct::Partial(inbound(1, 3, 602), 3), 1));
                        v.push((CAct::Partial(inbound(1, 4, 603), 1), 1));
                        if sent < 2 {
                            v.push((CAct::U(UReq::Publish { qos: 1 }), 0));
                        }
                    }
                    4 => {
                        // writes the client makes on its own or on request, next to inbound
                        // flows: keep-alive pings, a DISCONNECT the user asks for
                        v.push((CAct::T(cfg.keep_alive_s as u32 * 1000), 0));
                        v.push((CAct::B(Pk::PingResp), 0));
                        v.push((CAct::B(inbound(1, 1, 900)), 0));
                        v.push((CAct::B(inbound(2, 2, 901)), 0));
                        v.push((CAct::B(Pk::PubRel(2, 0)), 0));
                        if sent < 2 {
                            v.push((CAct::U(UReq::Publish { qos: 1 }), 0));
                            v.push((CAct::U(UReq::Subscribe), 0));
                            v.push((CAct::U(UReq::Disconnect), 0));
                        }
                        if unacked > 0 {
                            v.push((CAct::AckOldest, 0));
                        }
                        if w.mon.errors().len() < 2 {
                            v.push((CAct::Fail, 1));
                        }
                    }
                    _ => {
                        // manual acknowledgements
                        v.push((CAct::B(inbound(1, 1, 700)), 0));
                        v.push((CAct::B(inbound(2, 2, 701)), 0));
                        v.push((CAct::B(Pk::PubRel(2, 0)), 0));
                        if w.mon.inbound_unacked_len() > 0 {
                            v.push((CAct::U(UReq::Ack), 0));
                        }
                        if w.mon.inbound_unacked_len() > 1 {
                            // the user acknowledges the newer publish first
                            v.push((CAct::U(UReq::AckSecond), 0));
                        }
                        // a second inbound publish of each kind, so that two can be open
                        v.push((CAct::B(inbound(1, 3, 702)), 0));
                        v.push((CAct::B(inbound(2, 4, 703)), 0));
                        v.push((CAct::B(Pk::PubRel(4, 0)), 0));
                        if cfg.v5 {
                            v.push((CAct::B(Pk::Disconnect), 1));
                        }
                    }
                }
            }
            if !connected {
                v.push((CAct::Reconnect { sp: false }, 0));
                if cfg.variant == 0 {
                    // the session (with its open inbound QoS 2 flows) is resumed
                    v.push((CAct::Reconnect { sp: true }, 0));
                }
            }
        }
        "C18" => {
            // (MQTT 5: a server keep-alive in the CONNACK replaces the configured value)
            let ka = cfg.server_ka.map(|k| k as u64).unwrap_or(cfg.keep_alive_s);
            let div = if cfg.time_div == 0 { 5 } else { cfg.time_div as u64 };
            let q = (ka.max(1) * 1000 / div) as u32;
            if cfg.variant == 0 {
                if connected && healthy {
                    v.push((CAct::T(q), 0));
                    v.push((CAct::B(Pk::PingResp), 0));
                    v.push((CAct::B(inbound(0, 0, 800)), 0));
                    if sent < 3 {
                        v.push((CAct::U(UReq::Publish { qos: 0 }), 0));
                    }
                    // the connection is lost for another reason (ping possibly outstanding)
                    if w.mon.errors().len() < 2 {
                        v.push((CAct::Fail, 1));
                    }
                }
                if !connected && !w.mon.errors().is_empty() {
                    v.push((CAct::Reconnect { sp: false }, 0));
                }
            } else if cfg.variant == 2 {
                // a tiny transport buffer and a broker that stops reading: the client's writes
                // block, the transport stays open
                if connected && healthy {
                    v.push((CAct::T(q), 0));
                    if !w.broker_is_stalled() {
                        v.push((CAct::B(Pk::PingResp), 0));
                        v.push((CAct::BrokerStall, 0));
                    }
                    if sent < 3 {
                        v.push((CAct::U(UReq::Publish { qos: 0 }), 0));
                        v.push((CAct::U(UReq::Publish { qos: 1 }), 0));
                    }
                }
            } else {
                // connection phase: CONNACK never / late
                if !connected && w.mon.errors().is_empty() && w.mon.reconnect_offered_ms().is_none() {
                    v.push((CAct::ReconnectSilent, 0));
                    v.push((CAct::ReconnectRefused, 0));
                }
                // waiting for the CONNACK of a silent broker: time passes, or it answers late
                let awaiting = connected && w.mon.connect_seen_unanswered && w.mon.errors().is_empty();
                if awaiting {
                    v.push((CAct::T(1000), 0));
                    v.push((CAct::T(500), 0));
                    v.push((CAct::B(Pk::ConnAck { sp: false, code: 0, recv_max: None, server_ka: None }), 0));
                    // half a CONNACK and then silence; something that is not a CONNACK; the
                    // broker closing the transport in the middle of the handshake
                    v.push((CAct::Partial(Pk::ConnAck { sp: false, code: 0, recv_max: None, server_ka: None }, 2), 0));
                    v.push((CAct::B(Pk::PingResp), 0));
                    v.push((CAct::Fail, 0));
                }
                if connected && healthy && !w.mon.connect_seen_unanswered && w.mon.connections() > 0 {
                    // established after all: keep-alive applies from here on
                    v.push((CAct::T(1000), 0));
                    v.push((CAct::B(Pk::PingResp), 0));
                }
            }
        }
        _ => {}
    }
    v
}

/// after a failure: reconnect with the session present, give the client time, and require
/// that everything unacknowledged has been written again without any user action
pub fn closure<P: Proto>(w: &mut ClientWorld<P>, cfg: &Cfg) {
    if !matches!(cfg.prop.as_str(), "C02" | "C11") {
        return;
    }
    if w.has_partial() {
        return;
    }
    if !w.connected() {
        w.do_step(cfg, &CAct::Reconnect { sp: true });
    }
    let mut last_left = usize::MAX;
    let mut stuck = false;
    for _ in 0..64 {
        if w.is_dead() {
            return;
        }
        let h = w.held();
        if !h.connected {
            return;
        }
        let left = h.pending_pubs.len() + h.pending_rels.len() + h.pending_other;
        if left == 0 {
            break;
        }
        if (h.collision.is_some() || stuck) && (w.mon.unacked_on_wire() > 0 || w.mon.open_rels()) {
            // the default broker acknowledges in order, which resolves a collision and lets a
            // client go on that waits for room in a window the new connection made smaller
            // (acknowledgements are the broker's doing, not "user action")
            w.do_step(cfg, &CAct::AckOldest);
            stuck = false;
        } else {
            w.do_step(cfg, &CAct::T(cfg.throttle_ms.max(1) as u32));
            stuck = left == last_left;
        }
        last_left = left;
    }
    let h = w.held();
    w.mon.check_retransmitted(&h);
}

pub struct Plan {
    pub cfg: Cfg,
    pub depth_by_devs: Vec<usize>,
}

fn plans(prop: &str, tier: Tier) -> Vec<Plan> {
    let q = tier == Tier::Quick;
    let mut v = vec![];
    match prop {
        "C02" => {
            for v5 in [false, true] {
                for (limit, variant) in [(1u16, 0u8), (2, 0), (2, 1), (2, 2), (3, 0), (3, 2), (4, 0)] {
                    if q && limit > 3 {
                        continue;
                    }
                    let mut c = Cfg::base("C02", v5, limit);
                    c.variant = variant;
                    let d = if q { vec![6, 6, 6] } else { vec![9, 9, 8, 7] };
                    v.push(Plan { cfg: c.clone(), depth_by_devs: d });
                    if limit == 2 && (variant == 0 || (!q && variant == 2)) {
                        c.throttle_ms = 1;
                        v.push(Plan { cfg: c, depth_by_devs: if q { vec![6, 6] } else { vec![8, 8, 7] } });
                    }
                }
            }
            // keep-alive pings next to the flows: out-of-order acks park a publish on a
            // collision, two pings later the client gives up the connection
            for v5 in [false, true] {
                let mut c = Cfg::base("C02", v5, 2);
                c.variant = 5;
                c.keep_alive_s = 5;
                v.push(Plan { cfg: c, depth_by_devs: if q { vec![4, 4] } else { vec![6, 6, 5] } });
            }
            // MQTT 5: the resumed session announces a smaller receive maximum than the ids
            // still unacknowledged from the previous connection
            for (limit, next) in [(2u16, 1u16), (3, 1), (4, 2)] {
                if q && limit > 3 {
                    continue;
                }
                let mut c = Cfg::base("C02", true, limit);
                c.recv_max_next = Some(next);
                v.push(Plan { cfg: c, depth_by_devs: if q { vec![6, 6, 6] } else { vec![8, 8, 8] } });
            }
        }
        "C07" => {
            for v5 in [false, true] {
                for (limit, variant) in [(1u16, 0u8), (2, 0), (3, 0), (2, 2), (3, 1), (4, 0)] {
                    if q && limit > 3 {
                        continue;
                    }
                    let mut c = Cfg::base("C07", v5, limit);
                    c.variant = variant;
                    let dq = if variant == 0 { vec![6, 6] } else { vec![4, 4] };
                    v.push(Plan { cfg: c.clone(), depth_by_devs: if q { dq } else { vec![9, 9, 8] } });
                }
                if !q {
                    let mut c = Cfg::base("C07", v5, 10);
                    c.variant = 0;
                    v.push(Plan { cfg: c, depth_by_devs: vec![6, 6] });
                    let c = Cfg::base("C07", v5, 65535);
                    v.push(Plan { cfg: c, depth_by_devs: vec![5, 5] });
                }
            }
            // MQTT 5: a later connection announces a smaller receive maximum than the first
            {
                let mut c = Cfg::base("C07", true, 3);
                c.recv_max_next = Some(1);
                v.push(Plan { cfg: c, depth_by_devs: if q { vec![5, 5] } else { vec![8, 8] } });
            }
            // MQTT 5: broker announces a receive maximum below the configured limit
            let mut c = Cfg::base("C07", true, 3);
            c.recv_max = Some(1);
            v.push(Plan { cfg: c.clone(), depth_by_devs: if q { vec![5, 5] } else { vec![8, 8] } });
            if !q {
                c.recv_max = Some(2);
                v.push(Plan { cfg: c, depth_by_devs: vec![8, 8] });
            }
        }
        "C10" => {
            for v5 in [false, true] {
                for variant in 0..5u8 {
                    let mut c = Cfg::base("C10", v5, 3);
                    c.variant = variant;
                    c.manual_acks = variant == 3;
                    if variant == 4 {
                        c.keep_alive_s = 5;
                    }
                    let d = match (variant, q) {
                        (4, true) => vec![4, 3],
                        (4, false) => vec![6, 5],
                        (0, true) => vec![3, 3],
                        (0, false) => vec![4, 4],
                        (1, true) => vec![4, 4],
                        (1, false) => vec![6, 6, 5],
                        (2, true) => vec![3, 3],
                        (2, false) => vec![4, 4, 4],
                        (_, true) => vec![5, 5],
                        (_, false) => vec![8, 7],
                    };
                    v.push(Plan { cfg: c, depth_by_devs: d });
                }
            }
        }
        "C11" => {
            for v5 in [false, true] {
                for (limit, variant) in [(2u16, 0u8), (3, 0), (3, 1), (4, 0)] {
                    if q && limit > 3 {
                        continue;
                    }
                    let mut c = Cfg::base("C11", v5, limit);
                    c.variant = variant;
                    let dq = if variant == 0 { vec![7, 7, 7] } else { vec![5, 5, 5] };
                    v.push(Plan { cfg: c, depth_by_devs: if q { dq } else { vec![10, 10, 10, 9] } });
                }
            }
            // failures in the middle of a throttled replay (pending only partly re-sent)
            {
                let mut c = Cfg::base("C11", false, 3);
                c.throttle_ms = 1;
                c.prelude = vec![
                    CAct::U(UReq::Publish { qos: 1 }),
                    CAct::U(UReq::Publish { qos: 1 }),
                    CAct::U(UReq::Publish { qos: 1 }),
                ];
                v.push(Plan { cfg: c, depth_by_devs: if q { vec![5, 5, 5] } else { vec![8, 8, 8] } });
            }
            // wrap-around prelude: limit 3, p1..p3 sent, p1 and p2 acknowledged, p4 and p5 sent
            for v5 in [false, true] {
                let mut c = Cfg::base("C11", v5, 3);
                c.variant = 3;
                c.prelude = vec![
                    CAct::U(UReq::Publish { qos: 1 }),
                    CAct::U(UReq::Publish { qos: 1 }),
                    CAct::U(UReq::Publish { qos: 1 }),
                    CAct::AckOldest,
                    CAct::AckOldest,
                    CAct::U(UReq::Publish { qos: 1 }),
                    CAct::U(UReq::Publish { qos: 1 }),
                ];
                v.push(Plan { cfg: c, depth_by_devs: if q { vec![5, 5, 5, 5] } else { vec![8, 8, 8, 8] } });
            }
        }
        "C18" => {
            for v5 in [false, true] {
                for ka in [5u64, 7, 60] {
                    let mut c = Cfg::base("C18", v5, 10);
                    c.keep_alive_s = ka;
                    v.push(Plan { cfg: c.clone(), depth_by_devs: if q { vec![13, 12] } else { vec![17, 16, 14] } });
                    if !q && ka == 5 {
                        // finer phase offsets between broker replies, traffic and the timer
                        let mut f = c.clone();
                        f.time_div = 10;
                        v.push(Plan { cfg: f.clone(), depth_by_devs: vec![32, 30] });
                        // (steps stay multiples of the 100 ms slice in which the clock moves)
                        f.time_div = 2;
                        v.push(Plan { cfg: f, depth_by_devs: vec![8, 8, 8, 7] });
                    }
                }
                if v5 {
                    // the broker overrides the keep-alive: shorter, longer, switched off
                    for ska in [2u16, 10, 0] {
                        let mut c = Cfg::base("C18", v5, 10);
                        c.keep_alive_s = 5;
                        c.server_ka = Some(ska);
                        v.push(Plan { cfg: c, depth_by_devs: if q { vec![13, 12] } else { vec![17, 16] } });
                    }
                }
                if !v5 {
                    // (the MQTT 5 options do not accept a zero keep-alive)
                    let mut z = Cfg::base("C18", v5, 10);
                    z.keep_alive_s = 0;
                    v.push(Plan { cfg: z, depth_by_devs: vec![if q { 6 } else { 10 }] });
                }
                // the broker stops reading while the transport buffer is tiny
                let mut s = Cfg::base("C18", v5, 10);
                s.variant = 2;
                s.keep_alive_s = 5;
                s.pipe_cap = Some(8);
                v.push(Plan { cfg: s, depth_by_devs: vec![if q { 19 } else { 24 }] });
                let mut t = Cfg::base("C18", v5, 10);
                t.variant = 1;
                t.keep_alive_s = 5;
                t.conn_timeout_s = 3;
                t.start_connected = false;
                v.push(Plan { cfg: t, depth_by_devs: vec![7] });
            }
        }
        _ => {}
    }
    v
}

fn explore_one(cfg: &Cfg, params: &Params, reporter: &Reporter, ev: &mut Evidence) -> crate::vcore::explore::Stats {
    if cfg.v5 {
        explore::<ClientWorld<V5>>(cfg, params, reporter, ev)
    } else {
        explore::<ClientWorld<V4>>(cfg, params, reporter, ev)
    }
}

pub fn run(prop: &'static str, tier: Tier) -> i32 {
    let reporter = Reporter::new(prop);
    let mut ev = Evidence::new(prop, tier);
    let plans = plans(prop, tier);
    if plans.is_empty() {
        crate::vcore::machinery_error(&format!("no plan for {prop}"));
    }
    let budget = match tier {
        Tier::Quick => Duration::from_secs(40),
        Tier::Thorough => Duration::from_secs(900),
    };
    let per_plan = budget / plans.len() as u32;
    let mut per_cfg = vec![];
    let mut outcomes_total = 0;
    // depth bonus per property (the client world is cheap to rebuild)
    let delta: usize = match (prop, tier) {
        ("C02", Tier::Quick) => 4,
        ("C02", Tier::Thorough) => 3,
        ("C07", Tier::Quick) => 4,
        ("C07", Tier::Thorough) => 2,
        ("C10", Tier::Quick) => 2,
        ("C10", Tier::Thorough) => 2,
        ("C18", Tier::Thorough) => 3,
        ("C11", Tier::Quick) => 4,
        ("C11", Tier::Thorough) => 3,
        _ => 0,
    };
    let mut plans = plans;
    for p in plans.iter_mut() {
        for d in p.depth_by_devs.iter_mut() {
            *d += delta;
        }
    }
    let started = std::time::Instant::now();
    for (i, p) in plans.iter().enumerate() {
        // what the plans before this one did not use of their share is passed on
        let left = budget.saturating_sub(started.elapsed());
        let share = (left / (plans.len() - i) as u32).max(per_plan / 4);
        let params = Params {
            depth_by_devs: p.depth_by_devs.clone(),
            max_states: if tier == Tier::Quick { 1_000_000 } else { 5_000_000 },
            time_cap: share,
            run_closure: matches!(prop, "C02" | "C11"),
        };
        let st = explore_one(&p.cfg, &params, &reporter, &mut ev);
        outcomes_total += st.outcomes;
        per_cfg.push(json!({
            "v5": p.cfg.v5, "inflight": p.cfg.inflight, "variant": p.cfg.variant, "keep_alive_s": p.cfg.keep_alive_s,
            "manual_acks": p.cfg.manual_acks, "throttle_ms": p.cfg.throttle_ms, "recv_max": p.cfg.recv_max,
            "depth_by_deviations": p.depth_by_devs, "states": st.states, "transitions": st.transitions,
            "states_by_deviations": st.states_by_devs, "max_depth": st.max_depth, "distinct_outcomes": st.outcomes,
            "capped": st.capped, "pruned_on_violation": st.pruned_on_violation,
        }));
        println!(
            "{prop} v5={} inflight={} variant={} : states={} transitions={} depth={} outcomes={} capped={:?}",
            p.cfg.v5, p.cfg.inflight, p.cfg.variant, st.states, st.transitions, st.max_depth, st.outcomes, st.capped
        );
    }
    if outcomes_total < 2 * plans.len() as u64 {
        crate::vcore::machinery_error(&format!("{prop}: vacuous exploration (no distinct outcomes)"));
    }
    ev.set("per_configuration", json!(per_cfg));
    ev.set("distinct_outcomes", json!(outcomes_total));
    ev.assumptions = vec![
        "transport = in-memory duplex injected at network_connect; TCP/TLS/websocket transports are outside".into(),
        "one stimulus at a time, the poll() future is re-polled to quiescence after each (both orders of two stimuli are separate histories)".into(),
        "time is tokio's paused clock, advanced only by explicit T actions".into(),
    ];
    ev.violations = reporter.new_violations();
    let code = reporter.finish();
    ev.write();
    code
}

pub fn replay(v: &serde_json::Value) -> i32 {
    let cfg: Cfg = serde_json::from_value(v["cfg"].clone()).unwrap();
    let actions: Vec<CAct> = serde_json::from_value(v["actions"].clone()).unwrap();
    let viols = if cfg.v5 {
        replay_print::<ClientWorld<V5>>(&cfg, &actions, true)
    } else {
        replay_print::<ClientWorld<V4>>(&cfg, &actions, true)
    };
    if viols.is_empty() {
        println!("replay: no violation");
        0
    } else {
        println!("replay: {} violation(s) reproduced", viols.len());
        1
    }
}
