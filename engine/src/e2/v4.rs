//! MQTT 3.1.1 client glue for E2.
use super::{payload, tag_of, Cfg, Ev, Held, Pk, Proto, UReq};
use bytes::BytesMut;
use rumqttc::mqttbytes::v4 as c4;
use rumqttc::mqttbytes::QoS;
use rumqttc::{AsyncClient, Event, EventLoop, MqttOptions, Outgoing, Request};
use rumqttd::protocol::{self as bp, Protocol};
use std::future::Future;
use std::pin::Pin;
use std::time::Duration;

pub struct V4;

fn q(n: u8) -> QoS {
    match n {
        0 => QoS::AtMostOnce,
        1 => QoS::AtLeastOnce,
        _ => QoS::ExactlyOnce,
    }
}

pub fn pk_from_c4(p: &c4::Packet) -> Pk {
    match p {
        c4::Packet::Connect(c) => Pk::Connect { clean: c.clean_session },
        c4::Packet::ConnAck(a) => Pk::ConnAck {
            sp: a.session_present,
            code: if a.code == c4::ConnectReturnCode::Success { 0 } else { 5 },
            recv_max: None,
            server_ka: None,
        },
        c4::Packet::Publish(p) => Pk::Publish {
            qos: p.qos as u8,
            pkid: p.pkid,
            tag: tag_of(&p.payload),
            dup: p.dup,
            retain: p.retain,
            alias: None,
            topic_empty: p.topic.is_empty(),
            topic2: p.topic == "in/y",
        },
        c4::Packet::PubAck(a) => Pk::PubAck(a.pkid, 0),
        c4::Packet::PubRec(a) => Pk::PubRec(a.pkid, 0),
        c4::Packet::PubRel(a) => Pk::PubRel(a.pkid, 0),
        c4::Packet::PubComp(a) => Pk::PubComp(a.pkid, 0),
        c4::Packet::Subscribe(s) => Pk::Subscribe(s.pkid),
        c4::Packet::SubAck(s) => Pk::SubAck(s.pkid),
        c4::Packet::Unsubscribe(s) => Pk::Unsubscribe(s.pkid),
        c4::Packet::UnsubAck(s) => Pk::UnsubAck(s.pkid),
        c4::Packet::PingReq => Pk::PingReq,
        c4::Packet::PingResp => Pk::PingResp,
        c4::Packet::Disconnect => Pk::Disconnect,
    }
}

fn out_kind(o: &Outgoing) -> (String, u16) {
    match o {
        Outgoing::Publish(i) => ("Publish".into(), *i),
        Outgoing::Subscribe(i) => ("Subscribe".into(), *i),
        Outgoing::Unsubscribe(i) => ("Unsubscribe".into(), *i),
        Outgoing::PubAck(i) => ("PubAck".into(), *i),
        Outgoing::PubRec(i) => ("PubRec".into(), *i),
        Outgoing::PubRel(i) => ("PubRel".into(), *i),
        Outgoing::PubComp(i) => ("PubComp".into(), *i),
        Outgoing::PingReq => ("PingReq".into(), 0),
        Outgoing::PingResp => ("PingResp".into(), 0),
        Outgoing::Disconnect => ("Disconnect".into(), 0),
        Outgoing::AwaitAck(i) => ("AwaitAck".into(), *i),
    }
}

/// broker-side view of what the client wrote: decoded with the *broker's* 3.1.1 decoder
pub fn pk_from_broker(p: &bp::Packet) -> Pk {
    // qos / pkid of a broker Publish are not public: re-encode with the broker's encoder and
    // read the fixed layout back through the independent serialisation it offers
    match p {
        bp::Packet::Connect(c, ..) => Pk::Connect { clean: c.clean_session },
        bp::Packet::Publish(p, props) => {
            let ser = p.serialize();
            let h = ser[0];
            let pkid = u16::from_be_bytes([ser[1], ser[2]]);
            Pk::Publish {
                qos: (h & 0b0110) >> 1,
                pkid,
                tag: tag_of(&p.payload),
                dup: h & 0b1000 != 0,
                retain: p.retain,
                alias: props.as_ref().and_then(|x| x.topic_alias),
                topic_empty: p.topic.is_empty(),
                topic2: &p.topic[..] == b"in/y",
            }
        }
        bp::Packet::PubAck(a, _) => Pk::PubAck(a.pkid, if a.reason == bp::PubAckReason::Success { 0 } else { 0x80 }),
        bp::Packet::PubRec(a, _) => Pk::PubRec(a.pkid, if a.reason == bp::PubRecReason::Success { 0 } else { 0x80 }),
        bp::Packet::PubRel(a, _) => Pk::PubRel(a.pkid, 0),
        bp::Packet::PubComp(a, _) => Pk::PubComp(a.pkid, 0),
        bp::Packet::Subscribe(s, _) => Pk::Subscribe(s.pkid),
        bp::Packet::Unsubscribe(s, _) => Pk::Unsubscribe(s.pkid),
        bp::Packet::PingReq(_) => Pk::PingReq,
        bp::Packet::Disconnect(..) => Pk::Disconnect,
        other => Pk::Other(format!("{other:?}")),
    }
}

pub fn decode_with<Pr: Protocol>(proto: &mut Pr, buf: &mut BytesMut) -> Result<Vec<Pk>, String> {
    let mut out = vec![];
    loop {
        if buf.is_empty() {
            return Ok(out);
        }
        match proto.read_mut(buf, 1 << 28) {
            Ok(p) => out.push(pk_from_broker(&p)),
            Err(bp::Error::InsufficientBytes(_)) => return Ok(out),
            Err(e) => return Err(format!("{e:?}")),
        }
    }
}

pub fn err_text(e: &impl std::fmt::Debug) -> String {
    let s = format!("{e:?}");
    s.chars().take(120).collect()
}

fn req_summary(r: &Request) -> (Option<(u16, u32)>, Option<u16>) {
    match r {
        Request::Publish(p) => (Some((p.pkid, tag_of(&p.payload))), None),
        Request::PubRel(r) => (None, Some(r.pkid)),
        _ => (None, None),
    }
}

impl Proto for V4 {
    type Loop = EventLoop;
    type Client = AsyncClient;

    fn make(cfg: &Cfg) -> (AsyncClient, Box<EventLoop>) {
        let mut o = MqttOptions::new("vclient", "verif.invalid", 1883);
        o.set_keep_alive(Duration::from_secs(cfg.keep_alive_s));
        o.set_inflight(cfg.inflight);
        o.set_manual_acks(cfg.manual_acks);
        o.set_clean_session(cfg.clean);
        o.set_pending_throttle(Duration::from_millis(cfg.throttle_ms));
        let (c, mut el) = AsyncClient::new(o, 64);
        let mut n = el.network_options();
        n.set_connection_timeout(cfg.conn_timeout_s);
        el.set_network_options(n);
        (c, Box::new(el))
    }

    fn poll(el: &'static mut EventLoop) -> Pin<Box<dyn Future<Output = Ev>>> {
        Box::pin(async move {
            match el.poll().await {
                Ok(Event::Incoming(p)) => Ev::In(pk_from_c4(&p)),
                Ok(Event::Outgoing(o)) => {
                    let (k, i) = out_kind(&o);
                    Ev::Out(k, i)
                }
                Err(e) => Ev::Err(err_text(&e)),
            }
        })
    }

    fn request(client: &AsyncClient, req: &UReq, tag: u32, inbound: Option<&Pk>) -> bool {
        match req {
            UReq::Publish { qos } => client.try_publish("t/x", q(*qos), false, payload(tag)).is_ok(),
            UReq::Subscribe => client.try_subscribe("s/#", QoS::AtLeastOnce).is_ok(),
            UReq::Unsubscribe => client.try_unsubscribe("s/#").is_ok(),
            UReq::Ack | UReq::AckSecond => {
                let Some(Pk::Publish { qos, pkid, .. }) = inbound else {
                    return false;
                };
                let mut p = c4::Publish::new("in/x", q(*qos), vec![]);
                p.pkid = *pkid;
                client.try_ack(&p).is_ok()
            }
            UReq::Disconnect => client.try_disconnect().is_ok(),
        }
    }

    fn digest(el: &EventLoop) -> String {
        el.verif_digest()
    }

    fn held(el: &EventLoop) -> Held {
        let mut h = Held {
            inflight: el.state.inflight(),
            limit: el.mqtt_options.inflight(),
            chan_len: el.verif_channel_len(),
            connected: el.network.is_some(),
            ..Default::default()
        };
        for r in el.state.clone().clean() {
            let (p, rel) = req_summary(&r);
            if let Some(p) = p {
                h.clean_pubs.push(p);
            }
            if let Some(r) = rel {
                h.clean_rels.push(r);
            }
        }
        for r in el.pending.iter() {
            let (p, rel) = req_summary(r);
            match (p, rel) {
                (Some(p), _) => h.pending_pubs.push(p),
                (_, Some(r)) => h.pending_rels.push(r),
                _ => h.pending_other += 1,
            }
        }
        h.collision = el.state.collision.as_ref().map(|p| (p.pkid, tag_of(&p.payload)));
        h
    }

    fn encode(pk: &Pk) -> Vec<u8> {
        let mut b = BytesMut::new();
        let p = match pk {
            Pk::ConnAck { sp, code, .. } => c4::Packet::ConnAck(c4::ConnAck::new(
                if *code == 0 { c4::ConnectReturnCode::Success } else { c4::ConnectReturnCode::NotAuthorized },
                *sp,
            )),
            Pk::Publish { qos, pkid, tag, dup, retain, topic2, .. } => {
                let mut p = c4::Publish::new(if *topic2 { "in/y" } else { "in/x" }, q(*qos), payload(*tag));
                p.pkid = *pkid;
                p.dup = *dup;
                p.retain = *retain;
                c4::Packet::Publish(p)
            }
            Pk::PubAck(i, _) => c4::Packet::PubAck(c4::PubAck::new(*i)),
            Pk::PubRec(i, _) => c4::Packet::PubRec(c4::PubRec::new(*i)),
            Pk::PubRel(i, _) => c4::Packet::PubRel(c4::PubRel::new(*i)),
            Pk::PubComp(i, _) => c4::Packet::PubComp(c4::PubComp::new(*i)),
            Pk::SubAck(i) => c4::Packet::SubAck(c4::SubAck::new(*i, vec![c4::SubscribeReasonCode::Success(QoS::AtLeastOnce)])),
            Pk::UnsubAck(i) => c4::Packet::UnsubAck(c4::UnsubAck::new(*i)),
            Pk::PingResp => c4::Packet::PingResp,
            Pk::PingReq => c4::Packet::PingReq,
            Pk::Subscribe(i) => {
                let mut s = c4::Subscribe::new("s/#", QoS::AtLeastOnce);
                s.pkid = *i;
                c4::Packet::Subscribe(s)
            }
            Pk::Unsubscribe(i) => {
                let mut u = c4::Unsubscribe::new("s/#");
                u.pkid = *i;
                c4::Packet::Unsubscribe(u)
            }
            Pk::Disconnect => c4::Packet::Disconnect,
            other => crate::vcore::machinery_error(&format!("cannot encode {other:?} as a broker packet")),
        };
        if p.write(&mut b, usize::MAX).is_err() {
            crate::vcore::machinery_error("broker packet not encodable");
        }
        b.to_vec()
    }

    fn decode(buf: &mut BytesMut) -> Result<Vec<Pk>, String> {
        decode_with(&mut bp::v4::V4, buf)
    }
}
