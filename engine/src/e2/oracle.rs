//! Monitors for the client properties (C02, C07, C10, C11, C18). They see only what a
//! broker and a user can see: bytes on the wire (decoded), `poll()` results, and the
//! public fields `state` / `pending` of the event loop.
use super::{Cfg, Ev, Held, Pk, UReq};
use crate::vcore::Violation;
use std::collections::VecDeque;
use std::hash::Hash;

#[derive(Clone, Debug, PartialEq, Eq, Hash)]
pub enum Stage {
    /// not finally acknowledged, publish outstanding
    Unacked,
    /// QoS2: PUBREC sent by the broker, release / completion outstanding
    Released,
    Done,
    /// dropped legitimately: the broker reported no session on reconnect
    Abandoned,
}

#[derive(Clone, Debug, Hash)]
pub struct Led {
    pub tag: u32,
    pub qos: u8,
    pub stage: Stage,
    /// packet id under which it was last seen on the wire
    pub pkid: u16,
    /// seen on the wire of the current connection
    pub on_current: bool,
    /// order of first transmission (C11)
    pub first_sent: Option<u32>,
    /// issued by the user after the last connection failure
    pub post_fail: bool,
    /// number of connection failures seen when the user issued it
    pub issued_epoch: u32,
}

#[derive(Clone, Debug, Hash)]
pub struct BrokerPub {
    pub pkid: u16,
    pub tag: u32,
    pub qos: u8,
    /// PUBACK / PUBREC written
    pub acked: bool,
    /// PUBCOMP written (QoS2) or acked (QoS1)
    pub done: bool,
}

pub struct Monitor {
    prop: String,
    v5: bool,
    limit: u16,
    manual: bool,
    /// Interval within which a PINGREQ is owed and failures are due (0: no obligation). The
    /// statement speaks of "the keep-alive interval"; an MQTT 5 CONNACK may carry a server
    /// keep alive that differs from the configured one: that value is then the interval
    /// of the connection (MQTT 5, 3.2.2.3.14).
    keep_alive_ms: u64,
    /// the shorter of the two intervals (premise of the false-alarm clause)
    keep_alive_lo_ms: u64,
    /// pinging is ruled out only when no non-zero interval is in play
    pings_forbidden: bool,
    keep_alive_cfg_ms: u64,
    conn_timeout_ms: u64,
    pub last_was_error: bool,
    pub connect_seen_unanswered: bool,
    /// requests put into the channel, in order: (request, tag)
    sent: Vec<(UReq, u32)>,
    ledger: Vec<Led>,
    conn: u32,
    wire: Vec<Pk>,
    broker_pubs: Vec<BrokerPub>,
    /// packets the broker wrote and the client has not surfaced yet
    to_client: VecDeque<Pk>,
    /// replies the client owes for inbound flows
    replies: VecDeque<Pk>,
    /// topic aliases the broker established on this connection (alias -> second topic?)
    in_aliases: std::collections::BTreeMap<u16, bool>,
    /// inbound publishes that used an alias the broker never established
    lenient_tags: Vec<u32>,
    /// replies the client may or may not write (for those publishes)
    optional_replies: Vec<Pk>,
    inbound_q2: Vec<u16>,
    carried_q2: Vec<u16>,
    inbound_unacked: VecDeque<Pk>,
    outs: Vec<(String, u16)>,
    /// written on an earlier connection, announcement not surfaced yet
    stale_outs: VecDeque<(String, u16)>,
    wire_kinds: Vec<(String, u16)>,
    viols: Vec<(String, String)>,
    outcome: u64,
    first_sent_counter: u32,
    /// C11: tags (in original send order) and release ids carried over the last failure
    carry: Vec<u32>,
    carry_rels: Vec<u16>,
    resumed: Option<bool>,
    acks_in_order: bool,
    effective_limit: u16,
    // C18
    conn_started_ms: u64,
    last_ping_ms: Option<u64>,
    ping_outstanding_since: Option<u64>,
    broker_silent_since: Option<u64>,
    errors: Vec<(String, u64)>,
    reconnect_offered_ms: Option<u64>,
    /// the broker has written nothing since that transport was offered
    silent_handshake: bool,
    handshake_wait_ms: Option<u64>,
    idle_ms: Option<u64>,
    /// the broker stopped reading at this time (C18)
    stalled_since: Option<u64>,
    /// a CONNACK has been surfaced since the transport of the silent handshake was offered
    connack_surfaced: bool,
    healthy: bool,
    completed_rels: Vec<u16>,
    expect_unsolicited: bool,
    /// the broker sent something the client may, but need not, report as unsolicited
    maybe_unsolicited: bool,
    /// the broker acknowledged an id in flight with the wrong kind of acknowledgement
    wrong_kind_ack: bool,
    partial_outstanding: bool,
    stale_in: VecDeque<Pk>,
    fail_epoch: u32,
    reuse_during_release: bool,
    session_lost_with_unacked: bool,
}

fn kind_of(pk: &Pk) -> (String, u16) {
    match pk {
        Pk::Publish { pkid, .. } => ("Publish".into(), *pkid),
        Pk::PubAck(i, _) => ("PubAck".into(), *i),
        Pk::PubRec(i, _) => ("PubRec".into(), *i),
        Pk::PubRel(i, _) => ("PubRel".into(), *i),
        Pk::PubComp(i, _) => ("PubComp".into(), *i),
        Pk::Subscribe(i) => ("Subscribe".into(), *i),
        Pk::Unsubscribe(i) => ("Unsubscribe".into(), *i),
        Pk::PingReq => ("PingReq".into(), 0),
        Pk::Disconnect => ("Disconnect".into(), 0),
        Pk::Connect { .. } => ("Connect".into(), 0),
        other => (format!("{other:?}"), 0),
    }
}

impl Monitor {
    pub fn new(cfg: &Cfg) -> Monitor {
        Monitor {
            prop: cfg.prop.clone(),
            v5: cfg.v5,
            limit: cfg.inflight,
            manual: cfg.manual_acks,
            keep_alive_ms: cfg.keep_alive_s * 1000,
            keep_alive_lo_ms: cfg.keep_alive_s * 1000,
            pings_forbidden: cfg.keep_alive_s == 0,
            keep_alive_cfg_ms: cfg.keep_alive_s * 1000,
            conn_timeout_ms: cfg.conn_timeout_s * 1000,
            last_was_error: false,
            connect_seen_unanswered: false,
            sent: vec![],
            ledger: vec![],
            conn: 0,
            wire: vec![],
            broker_pubs: vec![],
            to_client: VecDeque::new(),
            replies: VecDeque::new(),
            in_aliases: Default::default(),
            lenient_tags: vec![],
            optional_replies: vec![],
            inbound_q2: vec![],
            carried_q2: vec![],
            inbound_unacked: VecDeque::new(),
            outs: vec![],
            stale_outs: VecDeque::new(),
            wire_kinds: vec![],
            viols: vec![],
            outcome: 0,
            first_sent_counter: 0,
            carry: vec![],
            carry_rels: vec![],
            resumed: None,
            acks_in_order: true,
            effective_limit: cfg.inflight,
            conn_started_ms: 0,
            last_ping_ms: None,
            ping_outstanding_since: None,
            broker_silent_since: None,
            errors: vec![],
            reconnect_offered_ms: None,
            silent_handshake: false,
            handshake_wait_ms: None,
            idle_ms: None,
            stalled_since: None,
            connack_surfaced: false,
            healthy: false,
            completed_rels: vec![],
            expect_unsolicited: false,
            maybe_unsolicited: false,
            wrong_kind_ack: false,
            partial_outstanding: false,
            stale_in: VecDeque::new(),
            fail_epoch: 0,
            reuse_during_release: false,
            session_lost_with_unacked: false,
        }
    }

    fn v(&mut self, code: &str, detail: String) {
        // Once a packet id has been handed out again while the QoS 2 release of its previous
        // owner was still open, the client cannot tell the two flows apart any more (one
        // bit / one slot per id). Everything that goes wrong afterwards in such a history
        // is a consequence of that one recorded finding and carries its code.
        if self.reuse_during_release && matches!(self.prop.as_str(), "C02" | "C07" | "C11") {
            self.viols.push(("pkid_reused_while_release_pending".to_string(), format!("(consequence: {code}) {detail}")));
            return;
        }
        self.viols.push((code.to_string(), detail));
    }

    pub fn take_violations(&mut self, prop: &'static str, out: &mut Vec<Violation>) {
        for (c, d) in self.viols.drain(..) {
            out.push(Violation::new(prop, c, d));
        }
    }

    fn is(&self, p: &str) -> bool {
        self.prop == p
    }

    // ------------------------------------------------------------------ inputs

    pub fn on_user(&mut self, req: &UReq, tag: u32) {
        self.sent.push((req.clone(), tag));
        if let UReq::Publish { qos } = req {
            if *qos > 0 {
                let post_fail = !self.healthy;
                self.ledger.push(Led {
                    tag,
                    qos: *qos,
                    stage: Stage::Unacked,
                    pkid: 0,
                    on_current: false,
                    first_sent: None,
                    post_fail,
                    issued_epoch: self.fail_epoch,
                });
            }
        }
        if matches!(req, UReq::Ack | UReq::AckSecond) {
            // with manual acknowledgements the reply is owed from the moment the user asks
            let which = if matches!(req, UReq::AckSecond) { self.inbound_unacked.remove(1) } else { self.inbound_unacked.pop_front() };
            if let Some(Pk::Publish { qos, pkid, .. }) = which {
                self.replies.push_back(if qos == 1 { Pk::PubAck(pkid, 0) } else { Pk::PubRec(pkid, 0) });
            }
        }
    }

    pub fn oldest_unacked_inbound(&self) -> Option<Pk> {
        self.inbound_unacked.front().cloned()
    }

    pub fn second_unacked_inbound(&self) -> Option<Pk> {
        self.inbound_unacked.get(1).cloned()
    }

    pub fn on_new_connection(&mut self) {
        self.conn += 1;
        // announcements of packets written on the connection that failed may still sit in
        // the event queue behind the error: they surface (once, in order) on the next one
        if self.outs.len() <= self.wire_kinds.len() && self.wire_kinds[..self.outs.len()] == self.outs[..] {
            self.stale_outs = self.wire_kinds[self.outs.len()..].iter().cloned().collect();
        } else if self.is("C10") {
            let d = format!("when the connection ended: announced {:?}, written {:?}", self.outs, self.wire_kinds);
            self.v("announcement_mismatch", d);
            self.stale_outs.clear();
        }
        self.wire.clear();
        self.wire_kinds.clear();
        self.outs.clear();
        self.broker_pubs.clear();
        self.to_client.clear();
        self.replies.clear();
        self.in_aliases.clear();
        self.optional_replies.clear();
        // inbound QoS 2 flows that were open (publish received, not yet released) belong to
        // the session: they stay known if the next CONNACK reports the session present
        self.carried_q2 = std::mem::take(&mut self.inbound_q2);
        self.inbound_unacked.clear();
        self.connect_seen_unanswered = false;
        self.completed_rels.clear();
        self.resumed = None;
        self.last_ping_ms = None;
        self.ping_outstanding_since = None;
        self.broker_silent_since = None;
        for l in self.ledger.iter_mut() {
            l.on_current = false;
        }
    }

    /// the broker wrote `pk` to the client
    pub fn on_broker_sent(&mut self, pk: &Pk) {
        // what poll() has to surface: an MQTT 5 client resolves topic aliases (3.3.2.3.4)
        let mut expected = pk.clone();
        let mut alias_error = false;
        if let Pk::Publish { alias: Some(a), topic_empty, topic2, tag, .. } = &mut expected {
            if *topic_empty {
                match self.in_aliases.get(a) {
                    Some(t2) => {
                        *topic_empty = false;
                        *topic2 = *t2;
                    }
                    None => {
                        // protocol error of the broker: what the client surfaces and answers
                        // is not constrained, its announcements still are
                        alias_error = true;
                        self.lenient_tags.push(*tag);
                    }
                }
            } else {
                self.in_aliases.insert(*a, *topic2);
            }
        }
        self.to_client.push_back(expected);
        self.silent_handshake = false;
        if alias_error {
            if let Pk::Publish { qos: 1, pkid, .. } = pk {
                self.optional_replies.push(Pk::PubAck(*pkid, 0));
            }
            return;
        }
        match pk {
            Pk::ConnAck { sp, code, recv_max, server_ka } => {
                if *code == 0 {
                    self.resumed = Some(*sp);
                    if let Some(ka) = server_ka {
                        // MQTT 5, 3.2.2.3.14: when the CONNACK carries a server keep alive, that
                        // value *is* the keep-alive interval of the connection, from its first
                        // interval on (a first version accepted either interval; a client that
                        // mixes the two — seed C18-d — then went unnoticed)
                        let srv = *ka as u64 * 1000;
                        self.keep_alive_ms = srv;
                        self.keep_alive_lo_ms = srv;
                        self.pings_forbidden = srv == 0;
                    } else {
                        self.keep_alive_ms = self.keep_alive_cfg_ms;
                        self.keep_alive_lo_ms = self.keep_alive_cfg_ms;
                        self.pings_forbidden = self.keep_alive_cfg_ms == 0;
                    }
                    let carried = std::mem::take(&mut self.carried_q2);
                    if *sp && !self.manual {
                        self.inbound_q2 = carried;
                    }
                    if let Some(m) = recv_max {
                        self.effective_limit = self.limit.min(*m);
                    }
                    if !*sp {
                        // no session: everything carried over is dropped, legitimately
                        for l in self.ledger.iter_mut() {
                            if matches!(l.stage, Stage::Unacked | Stage::Released) && !l.post_fail {
                                if l.first_sent.is_some() {
                                    // packet ids of abandoned publishes stay "allocated" in the
                                    // client's cursor: see retransmit_order_after_session_loss
                                    self.session_lost_with_unacked = true;
                                }
                                l.stage = Stage::Abandoned;
                            }
                        }
                        // (requests that were still queued when the connection failed were moved
                        // to `pending` as well and are dropped with it; requests issued after
                        // the failure stay in the channel and are not affected)
                    }
                }
            }
            Pk::PubAck(id, code) => {
                let nack = *code >= 0x80;
                // "never solicited" = no unacknowledged publish holds that id (an
                // acknowledgement of the wrong kind for an id that is in flight is the broker's
                // protocol error; what the client makes of it is not stated)
                if !self.broker_pubs.iter().any(|b| b.pkid == *id && !b.acked) {
                    self.expect_unsolicited = true;
                } else if !self.broker_pubs.iter().any(|b| b.pkid == *id && b.qos == 1 && !b.acked) {
                    self.wrong_kind_ack = true;
                }
                self.final_ack(*id, 1, nack);
            }
            Pk::PubRec(id, code) => {
                if !self.broker_pubs.iter().any(|b| b.pkid == *id && !b.acked) {
                    self.expect_unsolicited = true;
                } else if !self.broker_pubs.iter().any(|b| b.pkid == *id && b.qos == 2 && !b.acked) {
                    self.wrong_kind_ack = true;
                }
                if *code >= 0x80 {
                    self.final_ack(*id, 2, true);
                } else if let Some(bp) = self.broker_pubs.iter_mut().rev().find(|b| b.pkid == *id && b.qos == 2 && !b.acked) {
                    bp.acked = true;
                    let tag = bp.tag;
                    if let Some(l) = self.ledger.iter_mut().find(|l| l.tag == tag) {
                        l.stage = Stage::Released;
                    }
                }
            }
            Pk::PubComp(id, _) => {
                match self.completed_rels.iter().position(|x| x == id) {
                    Some(p) => {
                        self.completed_rels.remove(p);
                    }
                    None => self.expect_unsolicited = true,
                }
                if let Some(bp) = self.broker_pubs.iter_mut().rev().find(|b| b.pkid == *id && b.qos == 2 && b.acked && !b.done) {
                    bp.done = true;
                    let tag = bp.tag;
                    if let Some(l) = self.ledger.iter_mut().find(|l| l.tag == tag) {
                        l.stage = Stage::Done;
                    }
                } else if let Some(l) = self.ledger.iter_mut().find(|l| l.stage == Stage::Released && l.pkid == *id) {
                    // release carried over from an earlier connection
                    l.stage = Stage::Done;
                }
            }
            Pk::Publish { qos, pkid, .. } => {
                if !self.manual {
                    match qos {
                        1 => self.replies.push_back(Pk::PubAck(*pkid, 0)),
                        2 => self.replies.push_back(Pk::PubRec(*pkid, 0)),
                        _ => {}
                    }
                } else if *qos > 0 {
                    self.inbound_unacked.push_back(pk.clone());
                }
                if *qos == 2 && !self.inbound_q2.contains(pkid) {
                    // (the same id again before its release is the same flow)
                    self.inbound_q2.push(*pkid);
                }
            }
            Pk::PubRel(id, _) => {
                if let Some(p) = self.inbound_q2.iter().position(|x| x == id) {
                    self.inbound_q2.remove(p);
                    if self.manual {
                        // "sends none of these on its own when manual acknowledgement is
                        // enabled": whether that includes the PUBCOMP is not settled by the
                        // statement (rumqttc completes the flow itself); either is accepted
                        self.optional_replies.push(Pk::PubComp(*id, 0));
                    } else {
                        self.replies.push_back(Pk::PubComp(*id, 0));
                    }
                } else {
                    // a release of an id the client does not know: the statement speaks of
                    // acknowledgements and of releases of known ids only. Reporting it as
                    // unsolicited (rumqttc) and completing it with PUBCOMP (what MQTT
                    // describes) are both accepted.
                    self.maybe_unsolicited = true;
                    self.optional_replies.push(Pk::PubComp(*id, 0));
                }
            }
            _ => {}
        }
    }

    fn final_ack(&mut self, id: u16, qos: u8, _nack: bool) {
        if let Some(bp) = self.broker_pubs.iter_mut().rev().find(|b| b.pkid == id && b.qos == qos && !b.acked) {
            bp.acked = true;
            bp.done = true;
            let tag = bp.tag;
            if let Some(l) = self.ledger.iter_mut().find(|l| l.tag == tag) {
                l.stage = Stage::Done;
            }
        }
    }

    /// which acknowledgement the broker sends for `AckOldest` / `AckNewest` / `NackOldest`
    pub fn broker_ack_for(&mut self, newest: bool, nack: bool) -> Option<Pk> {
        // releases the broker received come first (their completion)
        let unacked: Vec<usize> = self
            .broker_pubs
            .iter()
            .enumerate()
            .filter(|(_, b)| !b.acked)
            .map(|(i, _)| i)
            .collect();
        let rels: Vec<u16> = self.completed_rels.clone();
        if !newest && !nack {
            if let Some(i) = rels.first() {
                return Some(Pk::PubComp(*i, 0));
            }
        }
        let idx = if newest { unacked.last() } else { unacked.first() }?;
        if newest && unacked.len() > 1 {
            self.acks_in_order = false;
        }
        let b = &self.broker_pubs[*idx];
        let code = if nack { 0x80 } else { 0 };
        Some(if b.qos == 1 { Pk::PubAck(b.pkid, code) } else { Pk::PubRec(b.pkid, code) })
    }

    /// the client wrote `pk` (decoded by the broker's decoder)
    pub fn on_wire(&mut self, pk: &Pk, now: u64) {
        self.outcome = crate::vcore::fp64(&(self.outcome, pk));
        self.wire.push(pk.clone());
        if !matches!(pk, Pk::Connect { .. }) {
            self.wire_kinds.push(kind_of(pk));
        }
        let limit = self.effective_limit;
        match pk {
            Pk::Connect { .. } => {
                self.connect_seen_unanswered = true;
            }
            Pk::Publish { qos, pkid, tag, .. } => {
                if *qos > 0 {
                    // ids are bounded by the *configured* limit (the statement's wording). The
                    // number of unacknowledged publishes is bounded by the configured limit
                    // always, and by the negotiated one (MQTT 5 receive maximum) for requests
                    // the event loop takes on this connection; requests carried over a
                    // failure are replayed first, whatever the new connection negotiated.
                    let c07 = self.is("C07");
                    let carried = self.ledger.iter().any(|l| l.tag == *tag && l.issued_epoch < self.fail_epoch);
                    if c07 && (*pkid == 0 || *pkid > self.limit) {
                        self.v("pkid_out_of_range", format!("PUBLISH on the wire with packet id {pkid}, configured inflight limit {}", self.limit));
                    }
                    if self.completed_rels.contains(pkid) || self.ledger.iter().any(|l| l.stage == Stage::Released && l.pkid == *pkid && l.tag != *tag) {
                        self.reuse_during_release = true;
                    }
                    if let Some(b) = self.broker_pubs.iter().find(|b| b.pkid == *pkid && !b.acked) {
                        let d = format!(
                            "PUBLISH (payload p{tag}) written with packet id {pkid} while publish p{} with the same id is unacknowledged on this connection",
                            b.tag
                        );
                        if c07 {
                            self.v("pkid_collision_on_wire", d);
                        }
                    }
                    self.broker_pubs.push(BrokerPub { pkid: *pkid, tag: *tag, qos: *qos, acked: false, done: false });
                    let outstanding = self.broker_pubs.iter().filter(|b| !b.acked).count();
                    if c07 && (outstanding > self.limit as usize || (!carried && outstanding > limit as usize)) {
                        self.v("window_exceeded", format!("{outstanding} publishes unacknowledged on the wire, configured limit {}, negotiated {limit}", self.limit));
                    }
                    let mut counter = self.first_sent_counter;
                    let c11 = self.is("C11");
                    let mut msgs: Vec<(&str, String)> = vec![];
                    if let Some(l) = self.ledger.iter_mut().find(|l| l.tag == *tag) {
                        if c11 && l.stage == Stage::Abandoned {
                            msgs.push(("abandoned_request_sent", format!("publish p{tag} was carried over a failure, the broker reported no session, and it was sent all the same (packet id {pkid})")));
                        }
                        if c11 && l.first_sent.is_some() && l.pkid != 0 && l.pkid != *pkid {
                            msgs.push(("retransmit_pkid_changed", format!("publish p{tag} was first sent with packet id {} and is sent again with packet id {pkid}", l.pkid)));
                        }
                        if c11 && l.first_sent.is_some() && l.qos != *qos {
                            msgs.push(("retransmit_content_changed", format!("publish p{tag} was accepted with QoS {} and is sent again with QoS {qos}", l.qos)));
                        }
                        l.pkid = *pkid;
                        l.on_current = true;
                        if l.first_sent.is_none() {
                            counter += 1;
                            l.first_sent = Some(counter);
                        }
                    }
                    self.first_sent_counter = counter;
                    for (c, d) in msgs {
                        self.v(c, d);
                    }
                    self.check_resume_order(*tag);
                }
            }
            Pk::Subscribe(id) | Pk::Unsubscribe(id) => {
                if self.is("C07") && (*id == 0 || *id > self.limit) {
                    self.v("pkid_out_of_range", format!("{pk:?} on the wire, configured inflight limit {}", self.limit));
                }
                self.check_resume_order(0);
            }
            Pk::PubRel(id, _) => {
                // (completed_rels holds the releases received and not completed yet)
                self.completed_rels.push(*id);
                if let Some(l) = self.ledger.iter_mut().find(|l| l.stage == Stage::Released && l.pkid == *id) {
                    l.on_current = true;
                }
            }
            Pk::PingReq => {
                self.on_ping(now);
            }
            Pk::PubAck(..) | Pk::PubRec(..) | Pk::PubComp(..) => {
                // replies to inbound flows
                if self.is("C10") {
                    // (the statement does not order the replies among themselves)
                    if let Some(p) = self.replies.iter().position(|e| e == pk) {
                        self.replies.remove(p);
                    } else if let Some(p) = self.optional_replies.iter().position(|e| e == pk) {
                        self.optional_replies.remove(p);
                    } else {
                        // (manual acknowledgements: owed only once the user has asked)
                        let d = format!("client wrote {pk:?}; the replies owed are {:?}", self.replies);
                        self.v("unexpected_reply_on_wire", d);
                    }
                }
            }
            _ => {}
        }
    }

    /// C11: on a resumed session the carried-over publishes come first, in original order
    fn check_resume_order(&mut self, tag: u32) {
        if !self.is("C11") || self.resumed != Some(true) {
            return;
        }
        let is_carry = tag != 0 && self.carry.contains(&tag);
        // only requests the user issued after the failure are constrained by the statement;
        // requests issued before it that were never transmitted are neither
        let issued_after = tag != 0 && self.ledger.iter().any(|l| l.tag == tag && l.issued_epoch >= self.fail_epoch && self.fail_epoch > 0);
        if !is_carry && !issued_after {
            return;
        }
        if is_carry {
            // must be the next carried-over publish in original order (QoS1, in-order acks, v4)
            if let Some(pos) = self.carry.iter().position(|t| *t == tag) {
                if pos != 0 && self.acks_in_order && !self.v5 && self.all_carry_qos1() {
                    let d = format!(
                        "retransmission order on the resumed session: p{tag} was sent before p{} which was originally sent earlier",
                        self.carry[0]
                    );
                    if self.session_lost_with_unacked {
                        self.v("retransmit_order_after_session_loss", d);
                    } else {
                        self.v("retransmit_order", d);
                    }
                }
                self.carry.remove(pos);
            }
        } else if !self.carry.is_empty() {
            let d = format!(
                "a request issued after the failure (p{tag} / control packet) was written before the carried-over publishes {:?}",
                self.carry.iter().map(|t| format!("p{t}")).collect::<Vec<_>>()
            );
            self.v("new_request_before_retransmission", d);
        }
    }

    fn all_carry_qos1(&self) -> bool {
        self.ledger.iter().filter(|l| matches!(l.stage, Stage::Unacked | Stage::Released)).all(|l| l.qos == 1)
    }

    fn on_ping(&mut self, now: u64) {
        if self.is("C18") {
            if self.pings_forbidden {
                self.v("ping_with_zero_keepalive", format!("PINGREQ written at t={now}ms although keep-alive is 0"));
            } else if self.keep_alive_ms > 0 {
                let since = self.last_ping_ms.unwrap_or(self.conn_started_ms);
                if now - since > self.keep_alive_ms {
                    let d = format!("{}ms between PINGREQs (previous at {since}ms, this at {now}ms), keep-alive {}ms", now - since, self.keep_alive_ms);
                    self.v("ping_late", d);
                }
            }
        }
        self.last_ping_ms = Some(now);
        if self.ping_outstanding_since.is_none() {
            self.ping_outstanding_since = Some(now);
        }
    }

    /// one `poll()` result
    pub fn on_event(&mut self, ev: &Ev, held: &Held, now: u64) {
        self.outcome = crate::vcore::fp64(&(self.outcome, ev));
        match ev {
            Ev::In(pk) => {
                if let Pk::ConnAck { .. } = pk {
                    self.connack_surfaced = true;
                    self.healthy = true;
                    self.last_was_error = false;
                    self.conn_started_ms = now;
                    for l in self.ledger.iter_mut() {
                        l.post_fail = false;
                    }
                }
                if let Pk::PingResp = pk {
                    self.ping_outstanding_since = None;
                }
                // the topic of a publish that used an alias nobody established is not constrained
                let lenient_match = |e: &Pk, lenient: &[u32]| match (e, pk) {
                    (Pk::Publish { tag: a, qos: q1, pkid: p1, .. }, Pk::Publish { tag: b, qos: q2, pkid: p2, .. }) => {
                        a == b && q1 == q2 && p1 == p2 && lenient.contains(a)
                    }
                    _ => false,
                };
                match self.to_client.front() {
                    Some(e) if e == pk || lenient_match(e, &self.lenient_tags) => {
                        self.to_client.pop_front();
                    }
                    _ if self.stale_in.front() == Some(pk) => {
                        // read on the previous connection, buffered behind the error
                        self.stale_in.pop_front();
                    }
                    other => {
                        if self.is("C10") {
                            let d = format!("poll() surfaced {pk:?}; the next packet the broker wrote is {other:?}");
                            self.v("incoming_event_mismatch", d);
                        } else if let Some(p) = self.to_client.iter().position(|e| e == pk) {
                            self.to_client.remove(p);
                        }
                    }
                }
            }
            Ev::Out(kind, id) => {
                if kind != "AwaitAck" {
                    if self.stale_outs.front() == Some(&(kind.clone(), *id)) {
                        self.stale_outs.pop_front();
                    } else {
                        self.outs.push((kind.clone(), *id));
                    }
                }
            }
            Ev::Err(e) => {
                self.last_was_error = true;
                self.healthy = false;
                self.errors.push((e.clone(), now));
                self.on_failure(held, e, now);
            }
        }
    }

    fn on_failure(&mut self, _held: &Held, e: &str, now: u64) {
        self.fail_epoch += 1;
        // C11 bookkeeping: what is carried over, in original send order
        let mut carry: Vec<(u32, u32)> = self
            .ledger
            .iter()
            .filter(|l| l.stage == Stage::Unacked && l.first_sent.is_some())
            .map(|l| (l.first_sent.unwrap(), l.tag))
            .collect();
        carry.sort();
        self.carry = carry.into_iter().map(|(_, t)| t).collect();
        self.carry_rels = self.ledger.iter().filter(|l| l.stage == Stage::Released).map(|l| l.pkid).collect();
        for l in self.ledger.iter_mut() {
            l.on_current = false;
        }
        // unsolicited acknowledgements must be reported as such (C10)
        // (after an acknowledgement of the wrong kind for an id in flight, who owes what for
        // that id is no longer defined: both checks stand down for this connection)
        if self.is("C10") && !self.wrong_kind_ack && self.expect_unsolicited && !e.contains("Unsolicited") && !e.contains("unsolicited") {
            self.v("unsolicited_not_reported", format!("unsolicited acknowledgement led to error {e:?}"));
        }
        // ... and nothing the client did solicit (an open flow of the resumed session
        // included) may be reported as unsolicited
        if self.is("C10") && !self.wrong_kind_ack && !self.expect_unsolicited && !self.maybe_unsolicited && (e.contains("Unsolicited") || e.contains("unsolicited")) {
            self.v("solicited_reported_unsolicited", format!("{e:?} although the broker sent nothing the client had not asked for"));
        }
        self.expect_unsolicited = false;
        self.maybe_unsolicited = false;
        self.wrong_kind_ack = false;
        if self.is("C18") {
            self.check_keepalive_error(e, now);
        }
        // packets already read may have their notification buffered behind the error: they
        // surface (once, in order) after the next connection is up
        self.stale_in = self.to_client.drain(..).collect();
        self.replies.clear();
    }

    fn check_keepalive_error(&mut self, e: &str, now: u64) {
        let ka_err = e.contains("AwaitPingResp") || e.contains("pingreq isn't acked") || e.contains("Last pingreq");
        // (while the broker is not reading, the client's pings cannot be observed)
        if ka_err && self.stalled_since.is_none() {
            // no false alarm: the broker must have left a PINGREQ unanswered for a whole interval
            match self.ping_outstanding_since {
                Some(t) if now - t >= self.keep_alive_lo_ms => {}
                other => {
                    let d = format!("keep-alive failure reported at {now}ms although the oldest unanswered PINGREQ dates from {other:?}");
                    self.v("keepalive_false_alarm", d);
                }
            }
        }
    }

    // ------------------------------------------------------------------ invariants

    /// evaluated whenever the client is quiescent (pending, nothing more to do)
    pub fn check_quiescent(&mut self, held: &Held, now: u64) {
        if self.is("C02") || self.is("C11") {
            self.check_ledger(held);
        }
        if self.is("C07") {
            self.check_gating(held);
        }
        if self.is("C10") {
            self.check_announcements(held);
        }
        if self.is("C18") {
            self.check_keepalive(held, now);
            self.check_connect_timeout(now);
        }
    }

    /// C18, last clause: a handshake the broker does not complete is reported as a timeout
    /// once the configured connection timeout has passed (and not earlier)
    fn check_connect_timeout(&mut self, now: u64) {
        let Some(t0) = self.reconnect_offered_ms else { return };
        // time spent waiting is part of the state as long as the verdict depends on it
        self.handshake_wait_ms = if self.silent_handshake && self.errors.is_empty() {
            Some((now - t0).min(self.conn_timeout_ms + 1500))
        } else {
            None
        };
        if !self.silent_handshake {
            // the broker answered (in time or late): no claim
            return;
        }
        match self.errors.last().cloned() {
            None => {
                if now > t0 + self.conn_timeout_ms {
                    let d = format!("transport offered at {t0}ms, no CONNACK, still no error at {now}ms (connection timeout {}ms)", self.conn_timeout_ms);
                    self.v("connect_timeout_missing", d);
                }
            }
            Some((e, at)) => {
                let is_timeout = e.to_lowercase().contains("timeout") || e.to_lowercase().contains("elapsed");
                if is_timeout && at < t0 + self.conn_timeout_ms {
                    let d = format!("timeout {e:?} reported at {at}ms, transport offered at {t0}ms, connection timeout {}ms", self.conn_timeout_ms);
                    self.v("connect_timeout_early", d);
                }
                if !is_timeout {
                    let d = format!("handshake left unanswered by the broker ended with {e:?} at {at}ms instead of a timeout");
                    self.v("connect_timeout_wrong_error", d);
                }
            }
        }
    }

    /// number of requests that have left the channel
    fn processed(&self, held: &Held) -> usize {
        self.sent.len().saturating_sub(held.chan_len)
    }

    fn check_ledger(&mut self, held: &Held) {
        // requests still in the channel are the most recent ones (FIFO)
        let in_channel: Vec<u32> = self.sent[self.processed(held)..].iter().map(|(_, t)| *t).collect();
        let mut msgs = vec![];
        for l in self.ledger.iter() {
            match l.stage {
                Stage::Done | Stage::Abandoned => continue,
                Stage::Unacked => {
                    let in_state = held.clean_pubs.iter().any(|(_, t)| *t == l.tag);
                    let in_pending = held.pending_pubs.iter().any(|(_, t)| *t == l.tag);
                    let in_collision = held.collision.is_some_and(|(_, t)| t == l.tag);
                    let queued = in_channel.contains(&l.tag);
                    if !(in_state || in_pending || in_collision || queued) {
                        msgs.push(format!(
                            "publish p{} (QoS{}, last packet id {}) is neither in flight nor held for retransmission nor queued (state holds {:?}, pending {:?}, collision {:?})",
                            l.tag, l.qos, l.pkid, held.clean_pubs, held.pending_pubs, held.collision
                        ));
                    } else if in_state && held.connected && !l.on_current && !in_pending && !in_collision {
                        msgs.push(format!("publish p{} is recorded as in flight but was never written on the current connection", l.tag));
                    }
                }
                Stage::Released => {
                    let ok = held.clean_rels.contains(&l.pkid) || held.pending_rels.contains(&l.pkid);
                    if !ok {
                        msgs.push(format!(
                            "release of QoS2 publish p{} (packet id {}) is not held (state rels {:?}, pending rels {:?})",
                            l.tag, l.pkid, held.clean_rels, held.pending_rels
                        ));
                    }
                }
            }
        }
        for m in msgs {
            // a packet id handed out again while the release of its previous owner was still
            // open makes the two QoS 2 flows indistinguishable for the client (one bit per
            // id): what follows from that is one recorded finding, reported under its own code
            self.v("publish_lost", m);
        }
    }

    fn check_gating(&mut self, held: &Held) {
        if !held.connected || !self.healthy {
            return;
        }
        let limit = self.effective_limit as usize;
        // publishes not finally acknowledged, as the broker sees them
        // plus releases carried over from an earlier connection and re-sent on this one: their
        // QoS 2 flow is open until the PUBCOMP as well
        let carried = self
            .completed_rels
            .iter()
            .filter(|id| !self.broker_pubs.iter().any(|b| b.pkid == **id && b.qos == 2 && b.acked && !b.done))
            .count();
        let open = self.broker_pubs.iter().filter(|b| !b.done).count() + carried;
        let queued = held.chan_len;
        let pending = held.pending_pubs.len() + held.pending_rels.len() + held.pending_other;
        if pending > 0 {
            return;
        }
        if let Some((pkid, tag)) = held.collision {
            // the holder's final acknowledgement (PUBACK, or PUBCOMP after a PUBREC) frees the id
            let resolvable = self.broker_pubs.iter().any(|b| b.pkid == pkid && !b.done);
            if !resolvable {
                let d = format!("collision pending for packet id {pkid} (publish p{tag}) but no unacknowledged publish holds that id on this connection");
                self.v("collision_unresolvable", d);
            }
        }
        // "Unacknowledged" can be read two ways for a QoS 2 publish past its PUBREC (rumqttc
        // keeps the slot until the PUBCOMP). Taking too much is judged by the narrow reading
        // (no PUBACK / PUBREC yet), not resuming by the wide one, so that a client following
        // either reading passes.
        let unacked = self.broker_pubs.iter().filter(|b| !b.acked).count();
        // What was carried over a failure is replayed whatever the new connection negotiated
        // (the statement bounds it by the configured limit)
        let replayed = self
            .broker_pubs
            .iter()
            .filter(|b| !b.acked && self.ledger.iter().any(|l| l.tag == b.tag && l.issued_epoch < self.fail_epoch))
            .count();
        if unacked > self.limit as usize || (unacked > limit && unacked > replayed) {
            self.v("window_exceeded", format!("{unacked} publishes unacknowledged ({replayed} of them replayed after a failure), limit {limit}, configured {}", self.limit));
        }
        if open >= limit || held.collision.is_some() {
            // nothing more is owed
        } else if queued > 0 {
            let d = format!(
                "{queued} user request(s) wait in the channel although only {open} of {limit} window slots are in use and no collision is pending (event loop counts inflight={})",
                held.inflight
            );
            self.v("window_not_resumed", d);
        }
    }

    fn check_announcements(&mut self, held: &Held) {
        if !held.connected || !self.healthy {
            return;
        }
        if self.outs != self.wire_kinds {
            // find first difference
            let n = self.outs.len().min(self.wire_kinds.len());
            let mut i = 0;
            while i < n && self.outs[i] == self.wire_kinds[i] {
                i += 1;
            }
            let d = format!(
                "outgoing notifications and packets on the wire differ at position {i}: announced {:?}, written {:?}",
                self.outs.get(i),
                self.wire_kinds.get(i)
            );
            self.v("announcement_mismatch", d);
        }
        if !self.to_client.is_empty() && !self.partial_outstanding {
            let d = format!("packets written by the broker were not surfaced by poll(): {:?}", self.to_client);
            self.v("incoming_not_surfaced", d);
        }
        if !self.replies.is_empty() && !self.partial_outstanding {
            let d = format!("replies owed for inbound flows were not written: {:?}", self.replies);
            self.v("reply_missing", d);
        }
    }

    pub fn broker_stalled(&mut self, since: Option<u64>) {
        self.stalled_since = since;
    }

    fn check_keepalive(&mut self, held: &Held, now: u64) {
        self.idle_ms = None;
        if self.keep_alive_ms == 0 || !held.connected || !self.healthy {
            return;
        }
        if let Some(t) = self.stalled_since {
            // The broker has stopped reading: what the client writes cannot be observed, but
            // a broker that reads nothing answers no ping either. A ping is due within one
            // interval, the failure within two more.
            self.idle_ms = Some(now.saturating_sub(t).min(4 * self.keep_alive_ms));
            if now > t + 3 * self.keep_alive_ms {
                let d = format!("the broker stopped reading at {t}ms; at {now}ms the connection is still not reported as failed (keep-alive {}ms)", self.keep_alive_ms);
                self.v("stalled_broker_undetected", d);
            }
            return;
        }
        let since = self.last_ping_ms.unwrap_or(self.conn_started_ms);
        // the verdicts below depend on how much time has passed: it is part of the state
        // (a client whose timer never fires would otherwise look unchanged for ever)
        self.idle_ms = Some(now.saturating_sub(since).min(3 * self.keep_alive_ms));
        if now > since + self.keep_alive_ms {
            let d = format!("no PINGREQ for {}ms (last at {since}ms, now {now}ms), keep-alive {}ms", now - since, self.keep_alive_ms);
            self.v("ping_missing", d);
        }
        if let Some(t) = self.ping_outstanding_since {
            // broker silent: failure must be reported by the second timer expiry after the ping
            if now > t + 2 * self.keep_alive_ms {
                let d = format!("PINGREQ of t={t}ms still unanswered at {now}ms and the connection is not reported as failed");
                self.v("silent_broker_undetected", d);
            }
        }
    }

    // ------------------------------------------------------------------ closure

    /// after reconnect with session present and enough time: everything unacknowledged has
    /// been written again on the current connection
    pub fn check_retransmitted(&mut self, held: &Held) {
        if !held.connected || !self.healthy {
            return;
        }
        let in_channel: Vec<u32> = self.sent[self.processed(held)..].iter().map(|(_, t)| *t).collect();
        let mut msgs = vec![];
        for l in self.ledger.iter() {
            match l.stage {
                Stage::Unacked => {
                    // a request that was never on the wire is not a retransmission: it may
                    // wait (held in pending) for the window like any new request
                    let waiting = l.first_sent.is_none() && held.pending_pubs.iter().any(|(_, t)| *t == l.tag);
                    let parked = held.collision.is_some_and(|(_, t)| t == l.tag) || in_channel.contains(&l.tag) || waiting;
                    if !l.on_current && !parked {
                        msgs.push(format!("publish p{} (packet id {}) was not transmitted again on the resumed connection", l.tag, l.pkid));
                    }
                }
                Stage::Released => {
                    if !l.on_current {
                        msgs.push(format!("release of p{} (packet id {}) was not transmitted again on the resumed connection", l.tag, l.pkid));
                    }
                }
                _ => {}
            }
        }
        for m in msgs {
            self.v("not_retransmitted", m);
        }
    }

    pub fn key(&self) -> u64 {
        crate::vcore::fp64(&(
            (&self.ledger, &self.sent, &self.broker_pubs),
            (&self.to_client, &self.replies, &self.stale_in),
            (&self.in_aliases, &self.lenient_tags, &self.optional_replies),
            (self.reconnect_offered_ms, self.silent_handshake, self.errors.len(), self.handshake_wait_ms, self.idle_ms, self.stalled_since.is_some(), self.connack_surfaced),
            &self.carry,
            self.resumed,
            self.acks_in_order,
            self.last_was_error,
            self.connect_seen_unanswered,
            (&self.outs, &self.wire_kinds, &self.inbound_q2, &self.inbound_unacked, &self.stale_outs, &self.carried_q2),
            (self.last_ping_ms, self.ping_outstanding_since, self.conn_started_ms, self.healthy, self.effective_limit, self.expect_unsolicited, self.wrong_kind_ack, self.partial_outstanding),
            (&self.completed_rels, self.reuse_during_release, self.session_lost_with_unacked, self.maybe_unsolicited),
        ))
    }

    pub fn outcome(&self) -> u64 {
        self.outcome
    }

    pub fn describe(&self) -> String {
        format!(
            "conn#{} healthy={} ledger={:?} broker_pubs={:?} wire={:?} errors={:?}",
            self.conn,
            self.healthy,
            self.ledger.iter().map(|l| format!("p{}:{:?}@{}", l.tag, l.stage, l.pkid)).collect::<Vec<_>>(),
            self.broker_pubs.iter().map(|b| format!("{}:p{}{}", b.pkid, b.tag, if b.done { "✓" } else if b.acked { "~" } else { "" })).collect::<Vec<_>>(),
            self.wire.iter().rev().take(4).collect::<Vec<_>>(),
            self.errors.last()
        )
    }

    pub fn unacked_on_wire(&self) -> usize {
        self.broker_pubs.iter().filter(|b| !b.acked).count()
    }
    pub fn open_rels(&self) -> bool {
        !self.completed_rels.is_empty()
    }
    pub fn note_unsolicited(&mut self) {
        self.expect_unsolicited = true;
    }
    pub fn set_partial(&mut self, b: bool) {
        self.partial_outstanding = b;
        if b && self.reconnect_offered_ms.is_some() && !self.connack_surfaced {
            // half a CONNACK is not an answer: the handshake is still incomplete
            self.silent_handshake = true;
        } else if !b {
            // the rest arrived, or the transport went away
            self.silent_handshake = false;
        }
    }
    /// the broker closed the transport during the handshake: not a case for the timeout
    pub fn handshake_aborted(&mut self) {
        self.silent_handshake = false;
    }
    pub fn errors(&self) -> &Vec<(String, u64)> {
        &self.errors
    }
    pub fn connections(&self) -> u32 {
        self.conn
    }
    pub fn healthy(&self) -> bool {
        self.healthy
    }
    pub fn sent_len(&self) -> usize {
        self.sent.len()
    }
    pub fn inbound_unacked_len(&self) -> usize {
        self.inbound_unacked.len()
    }
    pub fn reconnect_offered(&mut self, now: u64) {
        self.reconnect_offered_ms = Some(now);
        self.silent_handshake = true;
        self.connack_surfaced = false;
    }
    pub fn conn_timeout_ms(&self) -> u64 {
        self.conn_timeout_ms
    }
    pub fn reconnect_offered_ms(&self) -> Option<u64> {
        self.reconnect_offered_ms
    }
}
