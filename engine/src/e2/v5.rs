//! MQTT 5 client glue for E2.
use super::v4::{decode_with, err_text};
use super::{payload, tag_of, Cfg, Ev, Held, Pk, Proto, UReq};
use bytes::BytesMut;
use rumqttc::v5::mqttbytes::v5 as c5;
use rumqttc::v5::mqttbytes::QoS;
use rumqttc::v5::{AsyncClient, Event, EventLoop, MqttOptions, Request};
use rumqttc::Outgoing;
use rumqttd::protocol as bp;
use std::future::Future;
use std::pin::Pin;
use std::time::Duration;

pub struct V5;

fn q(n: u8) -> QoS {
    match n {
        0 => QoS::AtMostOnce,
        1 => QoS::AtLeastOnce,
        _ => QoS::ExactlyOnce,
    }
}

fn pk_from_c5(p: &c5::Packet) -> Pk {
    match p {
        c5::Packet::Connect(c, ..) => Pk::Connect { clean: c.clean_start },
        c5::Packet::ConnAck(a) => Pk::ConnAck {
            sp: a.session_present,
            code: if a.code == c5::ConnectReturnCode::Success { 0 } else { 5 },
            recv_max: a.properties.as_ref().and_then(|p| p.receive_max),
            server_ka: a.properties.as_ref().and_then(|p| p.server_keep_alive),
        },
        c5::Packet::Publish(p) => Pk::Publish {
            qos: p.qos as u8,
            pkid: p.pkid,
            tag: tag_of(&p.payload),
            dup: p.dup,
            retain: p.retain,
            alias: p.properties.as_ref().and_then(|x| x.topic_alias),
            topic_empty: p.topic.is_empty(),
            topic2: &p.topic[..] == b"in/y",
        },
        c5::Packet::PubAck(a) => Pk::PubAck(a.pkid, if a.reason == c5::PubAckReason::Success { 0 } else { 0x80 }),
        c5::Packet::PubRec(a) => Pk::PubRec(a.pkid, if a.reason == c5::PubRecReason::Success { 0 } else { 0x80 }),
        c5::Packet::PubRel(a) => Pk::PubRel(a.pkid, if a.reason == c5::PubRelReason::Success { 0 } else { 0x92 }),
        c5::Packet::PubComp(a) => Pk::PubComp(a.pkid, 0),
        c5::Packet::Subscribe(s) => Pk::Subscribe(s.pkid),
        c5::Packet::SubAck(s) => Pk::SubAck(s.pkid),
        c5::Packet::Unsubscribe(s) => Pk::Unsubscribe(s.pkid),
        c5::Packet::UnsubAck(s) => Pk::UnsubAck(s.pkid),
        c5::Packet::PingReq(_) => Pk::PingReq,
        c5::Packet::PingResp(_) => Pk::PingResp,
        c5::Packet::Disconnect(_) => Pk::Disconnect,
        other => Pk::Other(format!("{other:?}").chars().take(60).collect()),
    }
}

fn out_kind(o: &Outgoing) -> (String, u16) {
    match o {
        Outgoing::Publish(i) => ("Publish".into(), *i),
        Outgoing::Subscribe(i) => ("Subscribe".into(), *i),
        Outgoing::Unsubscribe(i) => ("Unsubscribe".into(), *i),
        Outgoing::PubAck(i) => ("PubAck".into(), *i),
        Outgoing::PubRec(i) => ("PubRec".into(), *i),
        Outgoing::PubRel(i) => ("PubRel".into(), *i),
        Outgoing::PubComp(i) => ("PubComp".into(), *i),
        Outgoing::PingReq => ("PingReq".into(), 0),
        Outgoing::PingResp => ("PingResp".into(), 0),
        Outgoing::Disconnect => ("Disconnect".into(), 0),
        Outgoing::AwaitAck(i) => ("AwaitAck".into(), *i),
    }
}

fn req_summary(r: &Request) -> (Option<(u16, u32)>, Option<u16>) {
    match r {
        Request::Publish(p) => (Some((p.pkid, tag_of(&p.payload))), None),
        Request::PubRel(r) => (None, Some(r.pkid)),
        _ => (None, None),
    }
}

impl Proto for V5 {
    type Loop = EventLoop;
    type Client = AsyncClient;

    fn make(cfg: &Cfg) -> (AsyncClient, Box<EventLoop>) {
        let mut o = MqttOptions::new("vclient", "verif.invalid", 1883);
        // the MQTT 5 options reject keep-alives below 5 s (zero included): the default
        // (60 s) is left in place then, no scenario without a keep-alive runs that long
        if cfg.keep_alive_s >= 5 {
            o.set_keep_alive(Duration::from_secs(cfg.keep_alive_s));
        }
        o.set_outgoing_inflight_upper_limit(cfg.inflight);
        o.set_manual_acks(cfg.manual_acks);
        o.set_clean_start(cfg.clean);
        o.set_pending_throttle(Duration::from_millis(cfg.throttle_ms));
        o.set_connection_timeout(cfg.conn_timeout_s);
        let (c, el) = AsyncClient::new(o, 64);
        (c, Box::new(el))
    }

    fn poll(el: &'static mut EventLoop) -> Pin<Box<dyn Future<Output = Ev>>> {
        Box::pin(async move {
            match el.poll().await {
                Ok(Event::Incoming(p)) => Ev::In(pk_from_c5(&p)),
                Ok(Event::Outgoing(o)) => {
                    let (k, i) = out_kind(&o);
                    Ev::Out(k, i)
                }
                Err(e) => Ev::Err(err_text(&e)),
            }
        })
    }

    fn request(client: &AsyncClient, req: &UReq, tag: u32, inbound: Option<&Pk>) -> bool {
        match req {
            UReq::Publish { qos } => client.try_publish("t/x", q(*qos), false, payload(tag)).is_ok(),
            UReq::Subscribe => client.try_subscribe("s/#", QoS::AtLeastOnce).is_ok(),
            UReq::Unsubscribe => client.try_unsubscribe("s/#").is_ok(),
            UReq::Ack | UReq::AckSecond => {
                let Some(Pk::Publish { qos, pkid, .. }) = inbound else {
                    return false;
                };
                let mut p = c5::Publish::new("in/x", q(*qos), vec![], None);
                p.pkid = *pkid;
                client.try_ack(&p).is_ok()
            }
            UReq::Disconnect => client.try_disconnect().is_ok(),
        }
    }

    fn digest(el: &EventLoop) -> String {
        el.verif_digest()
    }

    fn held(el: &EventLoop) -> Held {
        let mut h = Held {
            inflight: el.state.inflight(),
            limit: 0,
            chan_len: el.verif_channel_len(),
            connected: el.verif_connected(),
            ..Default::default()
        };
        for r in el.state.clone().clean() {
            let (p, rel) = req_summary(&r);
            if let Some(p) = p {
                h.clean_pubs.push(p);
            }
            if let Some(r) = rel {
                h.clean_rels.push(r);
            }
        }
        for r in el.pending.iter() {
            let (p, rel) = req_summary(r);
            match (p, rel) {
                (Some(p), _) => h.pending_pubs.push(p),
                (_, Some(r)) => h.pending_rels.push(r),
                _ => h.pending_other += 1,
            }
        }
        h.collision = el.state.collision.as_ref().map(|p| (p.pkid, tag_of(&p.payload)));
        h
    }

    fn encode(pk: &Pk) -> Vec<u8> {
        let mut b = BytesMut::new();
        let p = match pk {
            Pk::ConnAck { sp, code, recv_max, server_ka } => {
                let props = (recv_max.is_some() || server_ka.is_some()).then(|| c5::ConnAckProperties {
                    session_expiry_interval: None,
                    receive_max: *recv_max,
                    max_qos: None,
                    retain_available: None,
                    max_packet_size: None,
                    assigned_client_identifier: None,
                    topic_alias_max: None,
                    reason_string: None,
                    user_properties: vec![],
                    wildcard_subscription_available: None,
                    subscription_identifiers_available: None,
                    shared_subscription_available: None,
                    server_keep_alive: *server_ka,
                    response_information: None,
                    server_reference: None,
                    authentication_method: None,
                    authentication_data: None,
                });
                c5::Packet::ConnAck(c5::ConnAck {
                    session_present: *sp,
                    code: if *code == 0 { c5::ConnectReturnCode::Success } else { c5::ConnectReturnCode::NotAuthorized },
                    properties: props,
                })
            }
            Pk::Publish { qos, pkid, tag, dup, retain, alias, topic_empty, topic2 } => {
                let props = alias.map(|a| c5::PublishProperties { topic_alias: Some(a), ..Default::default() });
                let topic = if *topic_empty { "" } else if *topic2 { "in/y" } else { "in/x" };
                let mut p = c5::Publish::new(topic, q(*qos), payload(*tag), props);
                p.pkid = *pkid;
                p.dup = *dup;
                p.retain = *retain;
                c5::Packet::Publish(p)
            }
            Pk::PubAck(i, code) => {
                let mut a = c5::PubAck::new(*i, None);
                if *code >= 0x80 {
                    a.reason = c5::PubAckReason::UnspecifiedError;
                }
                c5::Packet::PubAck(a)
            }
            Pk::PubRec(i, code) => {
                let mut a = c5::PubRec::new(*i, None);
                if *code >= 0x80 {
                    a.reason = c5::PubRecReason::UnspecifiedError;
                }
                c5::Packet::PubRec(a)
            }
            Pk::PubRel(i, code) => {
                let mut r = c5::PubRel::new(*i, None);
                if *code >= 0x80 {
                    r.reason = c5::PubRelReason::PacketIdentifierNotFound;
                }
                c5::Packet::PubRel(r)
            }
            Pk::PubComp(i, _) => c5::Packet::PubComp(c5::PubComp::new(*i, None)),
            Pk::SubAck(i) => c5::Packet::SubAck(c5::SubAck {
                pkid: *i,
                return_codes: vec![c5::SubscribeReasonCode::Success(QoS::AtLeastOnce)],
                properties: None,
            }),
            Pk::UnsubAck(i) => c5::Packet::UnsubAck(c5::UnsubAck {
                pkid: *i,
                reasons: vec![c5::UnsubAckReason::Success],
                properties: None,
            }),
            Pk::PingResp => c5::Packet::PingResp(c5::PingResp),
            Pk::PingReq => c5::Packet::PingReq(c5::PingReq),
            Pk::Subscribe(i) => {
                let mut s = c5::Subscribe::new(c5::Filter::new("s/#", QoS::AtLeastOnce), None);
                s.pkid = *i;
                c5::Packet::Subscribe(s)
            }
            Pk::Unsubscribe(i) => {
                let mut u = c5::Unsubscribe::new("s/#", None);
                u.pkid = *i;
                c5::Packet::Unsubscribe(u)
            }
            // reason code 0x8b (server shutting down) with an explicit empty property list
            // (the short forms of DISCONNECT are the codec grid's business, property C04)
            Pk::Disconnect => return vec![0xe0, 0x02, 0x8b, 0x00],
            other => crate::vcore::machinery_error(&format!("cannot encode {other:?} as a broker packet")),
        };
        if p.write(&mut b, None).is_err() {
            crate::vcore::machinery_error("broker packet not encodable");
        }
        b.to_vec()
    }

    fn decode(buf: &mut BytesMut) -> Result<Vec<Pk>, String> {
        decode_with(&mut bp::v5::V5, buf)
    }
}
