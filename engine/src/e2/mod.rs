//! E2 `clientloop` — the real `EventLoop::poll` (MQTT 3.1.1 and MQTT 5) under a controlled
//! environment: paused tokio clock, in-memory duplex transport injected at
//! `network_connect`, the `poll()` future polled by hand. The harness is the broker.
pub mod oracle;
pub mod run;
pub mod v4;
pub mod v5;

use crate::vcore::explore::World;
use crate::vcore::{catch, fp128, Violation};
use oracle::Monitor;
use serde::{Deserialize, Serialize};
use std::future::Future;
use std::hash::Hash;
use std::pin::Pin;
use std::task::{Context, Poll, Waker};
use std::time::Duration;
use tokio::io::{AsyncReadExt, AsyncWriteExt, DuplexStream};

/// A packet in either direction, reduced to what the oracles compare.
#[derive(Clone, Debug, PartialEq, Eq, Hash, PartialOrd, Ord, Serialize, Deserialize)]
pub enum Pk {
    Connect { clean: bool },
    ConnAck {
        sp: bool,
        code: u8,
        recv_max: Option<u16>,
        /// MQTT 5: server keep-alive announced in the CONNACK
        #[serde(default)]
        server_ka: Option<u16>,
    },
    Publish {
        qos: u8,
        pkid: u16,
        tag: u32,
        dup: bool,
        retain: bool,
        alias: Option<u16>,
        topic_empty: bool,
        /// the topic is the second one of the harness ("in/y" towards the client)
        #[serde(default)]
        topic2: bool,
    },
    PubAck(u16, u8),
    PubRec(u16, u8),
    PubRel(u16, u8),
    PubComp(u16, u8),
    Subscribe(u16),
    SubAck(u16),
    Unsubscribe(u16),
    UnsubAck(u16),
    PingReq,
    PingResp,
    Disconnect,
    Other(String),
}

/// What one `poll()` returned.
#[derive(Clone, Debug, PartialEq, Eq, Hash, Serialize, Deserialize)]
pub enum Ev {
    In(Pk),
    /// outgoing notification: kind and id as announced by the event loop
    Out(String, u16),
    Err(String),
}

/// user requests
#[derive(Clone, Debug, PartialEq, Eq, Hash, PartialOrd, Ord, Serialize, Deserialize)]
pub enum UReq {
    Publish { qos: u8 },
    Subscribe,
    Unsubscribe,
    /// manual acknowledgement of the oldest inbound publish not yet acknowledged by the user
    Ack,
    /// the user asks for a DISCONNECT packet
    Disconnect,
    /// manual acknowledgement of the second oldest inbound publish (before the oldest)
    AckSecond,
}

#[derive(Clone, Debug, PartialEq, Eq, Hash, PartialOrd, Ord, Serialize, Deserialize)]
pub enum CAct {
    U(UReq),
    /// the broker writes one whole packet
    B(Pk),
    /// the broker writes several packets before the client is polled
    Batch(Vec<Pk>),
    /// the broker writes only the first k bytes of the packet (the rest follows with `Rest`)
    Partial(Pk, u8),
    Rest,
    /// acknowledge the oldest / newest unacknowledged publish the broker has received
    AckOldest,
    AckNewest,
    /// negative acknowledgement (MQTT 5 reason code >= 0x80) of the oldest
    NackOldest,
    /// only the first two bytes of the acknowledgement `AckOldest` would send are written;
    /// the rest follows with `Rest`, or the connection fails first
    PartialAck,
    /// the far end of the transport is dropped
    Fail,
    /// reconnect: transport offered, CONNACK(session_present) written after the CONNECT
    Reconnect { sp: bool },
    /// reconnect attempt answered by a refusing CONNACK
    ReconnectRefused,
    /// reconnect attempt: transport offered, the broker never answers
    ReconnectSilent,
    /// advance the virtual clock (milliseconds)
    T(u32),
    /// the broker stops / resumes taking bytes off the transport (it stays open)
    BrokerStall,
    BrokerResume,
}

#[derive(Clone, Debug, Serialize, Deserialize)]
pub struct Cfg {
    pub prop: String,
    pub variant: u8,
    pub v5: bool,
    pub inflight: u16,
    pub manual_acks: bool,
    pub keep_alive_s: u64,
    pub clean: bool,
    pub throttle_ms: u64,
    pub conn_timeout_s: u64,
    /// MQTT 5: receive maximum announced by the broker in CONNACK
    pub recv_max: Option<u16>,
    /// connect automatically when the world is created
    pub start_connected: bool,
    /// actions executed when the world is created (not counted as depth)
    pub prelude: Vec<CAct>,
    /// MQTT 5: receive maximum announced on every connection after the first one
    #[serde(default)]
    pub recv_max_next: Option<u16>,
    /// MQTT 5: server keep-alive (seconds) announced in every CONNACK
    #[serde(default)]
    pub server_ka: Option<u16>,
    /// capacity of the in-memory transport per direction (default 1 MiB)
    #[serde(default)]
    pub pipe_cap: Option<usize>,
    /// C18: the clock advances in steps of keep-alive / time_div (0: 5)
    #[serde(default)]
    pub time_div: u8,
}

impl Cfg {
    pub fn base(prop: &str, v5: bool, inflight: u16) -> Cfg {
        Cfg {
            prop: prop.to_string(),
            variant: 0,
            v5,
            inflight,
            manual_acks: false,
            keep_alive_s: 0,
            clean: false,
            throttle_ms: 0,
            conn_timeout_s: 5,
            recv_max: None,
            start_connected: true,
            prelude: vec![],
            recv_max_next: None,
            server_ka: None,
            pipe_cap: None,
            time_div: 0,
        }
    }
    pub fn prop_static(&self) -> &'static str {
        match self.prop.as_str() {
            "C02" => "C02",
            "C07" => "C07",
            "C10" => "C10",
            "C11" => "C11",
            "C18" => "C18",
            _ => "C??",
        }
    }
}

/// What the client library currently holds for a publish it has accepted.
#[derive(Clone, Debug, Default, PartialEq, Eq, Hash)]
pub struct Held {
    /// (pkid, tag) of publishes `state.clone().clean()` would hand over for retransmission
    pub clean_pubs: Vec<(u16, u32)>,
    pub clean_rels: Vec<u16>,
    /// requests carried over from the previous connection
    pub pending_pubs: Vec<(u16, u32)>,
    pub pending_rels: Vec<u16>,
    pub pending_other: usize,
    pub collision: Option<(u16, u32)>,
    pub inflight: u16,
    pub limit: u16,
    pub chan_len: usize,
    pub connected: bool,
}

/// Protocol-version specific glue (the two client implementations are separate code).
pub trait Proto: 'static {
    type Loop: 'static;
    type Client: 'static;
    fn make(cfg: &Cfg) -> (Self::Client, Box<Self::Loop>);
    /// one `poll()` of the real event loop
    fn poll(el: &'static mut Self::Loop) -> Pin<Box<dyn Future<Output = Ev>>>;
    /// put a request into the client's channel; false when the channel is full
    fn request(client: &Self::Client, req: &UReq, tag: u32, inbound: Option<&Pk>) -> bool;
    fn digest(el: &Self::Loop) -> String;
    fn held(el: &Self::Loop) -> Held;
    /// encode a broker-to-client packet
    fn encode(pk: &Pk) -> Vec<u8>;
    /// decode everything the client wrote (broker side); leftover bytes stay in `buf`
    fn decode(buf: &mut bytes::BytesMut) -> Result<Vec<Pk>, String>;
}

pub fn payload(tag: u32) -> Vec<u8> {
    format!("p{tag}").into_bytes()
}

pub fn tag_of(payload: &[u8]) -> u32 {
    std::str::from_utf8(payload)
        .ok()
        .and_then(|s| s.strip_prefix('p'))
        .and_then(|s| s.parse().ok())
        .unwrap_or(0)
}

fn poll_once<F: Future + ?Sized>(f: Pin<&mut F>) -> Poll<F::Output> {
    let mut cx = Context::from_waker(Waker::noop());
    f.poll(&mut cx)
}

pub struct ClientWorld<P: Proto> {
    rt: tokio::runtime::Runtime,
    client: P::Client,
    el: *mut P::Loop,
    fut: Option<Pin<Box<dyn Future<Output = Ev>>>>,
    /// far end of the current transport
    far: Option<DuplexStream>,
    /// bytes the client wrote and the broker has not framed yet
    far_buf: bytes::BytesMut,
    partial_rest: Option<Vec<u8>>,
    /// acknowledgement whose first bytes are written (`PartialAck`): the monitor learns of
    /// it only when the rest is written
    partial_pk: Option<Pk>,
    /// the broker has stopped reading from the transport (`BrokerStall`)
    broker_stalled: bool,
    /// capacity of the in-memory transport, per direction
    pipe_cap: usize,
    pub mon: Monitor,
    next_tag: u32,
    dead: bool,
    now_ms: u64,
    pending_viols: Vec<Violation>,
    prop: &'static str,
    /// CONNACK to write once the CONNECT of the reconnect arrives
    connack_plan: Option<Pk>,
}

impl<P: Proto> Drop for ClientWorld<P> {
    fn drop(&mut self) {
        // the in-flight future borrows the event loop: drop it first, inside the runtime
        let fut = self.fut.take();
        let far = self.far.take();
        let el = self.el;
        self.rt.block_on(async move {
            drop(fut);
            drop(far);
            unsafe { drop(Box::from_raw(el)) };
        });
        rumqttc::verif::disable();
    }
}

impl<P: Proto> ClientWorld<P> {
    fn el(&self) -> &P::Loop {
        // only called while no future is being polled; reading while the future is merely
        // stored is how a debugger would look at the struct (single thread, no concurrent use)
        unsafe { &*self.el }
    }

    fn viol(&mut self, code: &str, detail: String) {
        let p = self.prop;
        self.pending_viols.push(Violation::new(p, code, detail));
    }

    /// Poll the event loop until it is pending (or has returned an error). Every `Ok`
    /// result is logged and followed by a fresh `poll()`, as a user loop would do.
    fn run_client(&mut self) {
        if self.dead {
            return;
        }
        for _ in 0..10_000 {
            if self.fut.is_none() {
                if self.mon.last_was_error {
                    // the user sees the error; reconnecting is a separate stimulus
                    return;
                }
                let el: &'static mut P::Loop = unsafe { &mut *self.el };
                self.fut = Some(P::poll(el));
            }
            let r = {
                let fut = self.fut.as_mut().unwrap();
                let _g = self.rt.enter();
                catch(|| self.rt.block_on(async { poll_once(fut.as_mut()) }))
            };
            match r {
                Err(p) => {
                    self.fut = None;
                    self.dead = true;
                    self.viol("client_panic", format!("EventLoop::poll panicked: {p}"));
                    return;
                }
                Ok(Poll::Pending) => {
                    // (with a small transport buffer the client may wait for room: taking
                    // bytes off the far end is a reason to poll it again)
                    let n = self.broker_read();
                    if !self.broker_auto() && n == 0 {
                        return;
                    }
                }
                Ok(Poll::Ready(ev)) => {
                    self.fut = None;
                    self.broker_read();
                    let held = P::held(self.el());
                    self.mon.on_event(&ev, &held, self.now_ms);
                    if matches!(ev, Ev::Err(_)) {
                        self.far = None;
                        self.far_buf.clear();
                        self.partial_rest = None;
                        self.partial_pk = None;
                        self.connack_plan = None;
                        self.broker_stalled = false;
                        self.mon.broker_stalled(None);
                        return;
                    }
                }
            }
        }
        self.viol("client_livelock", "poll() kept returning events 10000 times without a stimulus".into());
        self.dead = true;
    }

    /// frame and log what the client wrote
    /// returns the number of bytes taken off the transport
    fn broker_read(&mut self) -> usize {
        if self.broker_stalled {
            return 0;
        }
        let Some(far) = self.far.as_mut() else { return 0 };
        let mut tmp = [0u8; 4096];
        let mut total = 0;
        loop {
            let n = {
                let _g = self.rt.enter();
                let mut f = std::pin::pin!(far.read(&mut tmp));
                match poll_once(f.as_mut()) {
                    Poll::Ready(Ok(n)) => n,
                    _ => 0,
                }
            };
            if n == 0 {
                break;
            }
            total += n;
            self.far_buf.extend_from_slice(&tmp[..n]);
        }
        match P::decode(&mut self.far_buf) {
            Ok(pks) => {
                for pk in pks {
                    self.mon.on_wire(&pk, self.now_ms);
                }
            }
            Err(e) => {
                self.viol("client_wrote_garbage", format!("the broker decoder rejects what the client wrote: {e}"));
                self.far_buf.clear();
            }
        }
        total
    }

    /// automatic broker behaviour: answer the CONNECT of a reconnect. Returns true if
    /// something was written (the client must be polled again).
    fn broker_auto(&mut self) -> bool {
        if self.mon.connect_seen_unanswered {
            if let Some(pk) = self.connack_plan.take() {
                self.mon.connect_seen_unanswered = false;
                self.broker_write_pk(&pk);
                return true;
            }
        }
        false
    }

    fn broker_write_bytes(&mut self, bytes: &[u8]) {
        let Some(far) = self.far.as_mut() else { return };
        let _g = self.rt.enter();
        let mut f = std::pin::pin!(far.write_all(bytes));
        match poll_once(f.as_mut()) {
            Poll::Ready(Ok(())) => {}
            Poll::Ready(Err(_)) => {}
            Poll::Pending => crate::vcore::machinery_error("duplex buffer full on broker write"),
        }
    }

    fn broker_write_pk(&mut self, pk: &Pk) {
        let bytes = P::encode(pk);
        self.mon.on_broker_sent(pk);
        self.broker_write_bytes(&bytes);
    }

    fn offer_transport(&mut self) {
        let (near, far) = tokio::io::duplex(self.pipe_cap);
        rumqttc::verif::push_transport(near);
        self.far = Some(far);
        self.broker_stalled = false;
        self.far_buf.clear();
        self.mon.on_new_connection();
    }

    fn advance(&mut self, ms: u32) {
        let _g = self.rt.enter();
        self.rt.block_on(async {
            tokio::time::advance(Duration::from_millis(ms as u64)).await;
        });
        self.now_ms += ms as u64;
    }

    fn step(&mut self, cfg: &Cfg, a: &CAct) {
        match a {
            CAct::U(req) => {
                let tag = if matches!(req, UReq::Publish { .. }) {
                    self.next_tag += 1;
                    self.next_tag
                } else {
                    0
                };
                let inbound = if matches!(req, UReq::AckSecond) { self.mon.second_unacked_inbound() } else { self.mon.oldest_unacked_inbound() };
                if P::request(&self.client, req, tag, inbound.as_ref()) {
                    self.mon.on_user(req, tag);
                }
            }
            CAct::B(pk) => self.broker_write_pk(pk),
            CAct::Batch(pks) => {
                for pk in pks {
                    self.broker_write_pk(pk);
                }
            }
            CAct::Partial(pk, k) => {
                let bytes = P::encode(pk);
                let k = (*k as usize).min(bytes.len().saturating_sub(1)).max(1);
                self.mon.on_broker_sent(pk);
                self.mon.set_partial(true);
                self.broker_write_bytes(&bytes[..k]);
                self.partial_rest = Some(bytes[k..].to_vec());
            }
            CAct::Rest => {
                if let Some(rest) = self.partial_rest.take() {
                    self.mon.set_partial(false);
                    if let Some(pk) = self.partial_pk.take() {
                        self.mon.on_broker_sent(&pk);
                    }
                    self.broker_write_bytes(&rest);
                }
            }
            CAct::PartialAck => {
                if let Some(pk) = self.mon.broker_ack_for(false, false) {
                    let bytes = P::encode(&pk);
                    self.mon.set_partial(true);
                    self.broker_write_bytes(&bytes[..2]);
                    self.partial_rest = Some(bytes[2..].to_vec());
                    self.partial_pk = Some(pk);
                }
            }
            CAct::AckOldest | CAct::AckNewest | CAct::NackOldest => {
                let newest = matches!(a, CAct::AckNewest);
                let nack = matches!(a, CAct::NackOldest);
                if let Some(pk) = self.mon.broker_ack_for(newest, nack) {
                    self.broker_write_pk(&pk);
                }
            }
            CAct::Fail => {
                self.far = None;
                self.partial_rest = None;
                self.partial_pk = None;
                self.broker_stalled = false;
                self.mon.broker_stalled(None);
                self.mon.set_partial(false);
            }
            CAct::Reconnect { sp } => {
                // later connections may announce a different receive maximum (MQTT 5)
                let rm = if self.mon.connections() > 0 && cfg.recv_max_next.is_some() { cfg.recv_max_next } else { cfg.recv_max };
                self.offer_transport();
                self.connack_plan = Some(Pk::ConnAck { sp: *sp, code: 0, recv_max: rm, server_ka: cfg.server_ka });
                self.mon.last_was_error = false;
            }
            CAct::ReconnectRefused => {
                self.offer_transport();
                self.connack_plan = Some(Pk::ConnAck { sp: false, code: 5, recv_max: None, server_ka: None });
                self.mon.last_was_error = false;
            }
            CAct::ReconnectSilent => {
                self.mon.reconnect_offered(self.now_ms);
                self.offer_transport();
                self.connack_plan = None;
                self.mon.last_was_error = false;
            }
            CAct::BrokerStall => {
                self.broker_stalled = true;
                self.mon.broker_stalled(Some(self.now_ms));
            }
            CAct::BrokerResume => {
                self.broker_stalled = false;
                self.mon.broker_stalled(None);
            }
            CAct::T(ms) => {
                // in slices of 100 ms, the client polled in between: tokio's `advance` jumps,
                // and a timer overtaken by a jump would be observed late by the whole jump
                let mut left = *ms;
                while left > 0 {
                    let d = left.min(100);
                    self.advance(d);
                    left -= d;
                    if left > 0 {
                        self.run_client();
                    }
                }
            }
        }
        self.run_client();
    }
}

impl<P: Proto> World for ClientWorld<P> {
    type Cfg = Cfg;
    type Action = CAct;
    const ENGINE: &'static str = "e2_client";

    fn new(cfg: &Cfg) -> Self {
        let rt = tokio::runtime::Builder::new_current_thread()
            .enable_time()
            .start_paused(true)
            .build()
            .unwrap();
        rumqttc::verif::enable();
        let (client, el) = {
            let _g = rt.enter();
            P::make(cfg)
        };
        let mut w = ClientWorld::<P> {
            rt,
            client,
            el: Box::into_raw(el),
            fut: None,
            far: None,
            far_buf: bytes::BytesMut::new(),
            partial_rest: None,
            partial_pk: None,
            broker_stalled: false,
            pipe_cap: cfg.pipe_cap.unwrap_or(1 << 20),
            mon: Monitor::new(cfg),
            next_tag: 0,
            dead: false,
            now_ms: 0,
            pending_viols: vec![],
            prop: cfg.prop_static(),
            connack_plan: None,
        };
        w.mon.last_was_error = true; // nothing polled yet: a connection must be offered
        if cfg.start_connected {
            w.step(cfg, &CAct::Reconnect { sp: false });
        }
        for a in cfg.prelude.iter() {
            w.step(cfg, a);
        }
        w
    }

    fn enabled(&self, cfg: &Cfg) -> Vec<(CAct, u8)> {
        if self.dead {
            return vec![];
        }
        run::enabled(self, cfg)
    }

    fn apply(&mut self, cfg: &Cfg, a: &CAct, out: &mut Vec<Violation>) {
        if self.dead {
            return;
        }
        self.step(cfg, a);
        out.append(&mut self.pending_viols);
        if !self.dead {
            let held = P::held(self.el());
            self.mon.check_quiescent(&held, self.now_ms);
        }
        self.mon.take_violations(self.prop, out);
    }

    fn fingerprint(&self) -> u128 {
        // (tokio's paused clock is only visible inside the runtime context)
        let _g = self.rt.enter();
        let d = if self.dead { String::new() } else { P::digest(self.el()) };
        fp128(&(
            d,
            self.far.is_some(),
            &self.far_buf[..],
            &self.partial_rest,
            &self.partial_pk,
            self.broker_stalled,
            &self.connack_plan,
            self.fut.is_some(),
            self.mon.key(),
            self.dead,
        ))
    }

    fn closure(mut self, cfg: &Cfg, out: &mut Vec<Violation>) -> u64 {
        if self.dead {
            return 0;
        }
        run::closure(&mut self, cfg);
        out.append(&mut self.pending_viols);
        self.mon.take_violations(self.prop, out);
        0
    }

    fn outcome(&self) -> u64 {
        self.mon.outcome()
    }

    fn describe(&self) -> String {
        if self.dead {
            return "dead".into();
        }
        let _g = self.rt.enter();
        format!("t={}ms {} | {}", self.now_ms, self.mon.describe(), P::digest(self.el()))
    }
}

impl<P: Proto> ClientWorld<P> {
    pub fn do_step(&mut self, cfg: &Cfg, a: &CAct) {
        self.step(cfg, a);
        if !self.dead {
            let held = P::held(self.el());
            self.mon.check_quiescent(&held, self.now_ms);
        }
    }
    pub fn is_dead(&self) -> bool {
        self.dead
    }
    pub fn connected(&self) -> bool {
        self.far.is_some()
    }
    pub fn broker_is_stalled(&self) -> bool {
        self.broker_stalled
    }
    pub fn has_partial(&self) -> bool {
        self.partial_rest.is_some()
    }
    pub fn held(&self) -> Held {
        P::held(self.el())
    }
}
