#!/bin/bash
# run_all_seeds.sh [tier] — every seeded change against the check of its property (sequential; patches /repo and reverts)
cd "$(dirname "$0")/.."
tier=${1:-quick}
for d in seeded/*/; do
  s=$(basename $d); p=${s%%-*}
  out=$(tools/run_seed.sh $s $p $tier 2>&1 | grep -E "^== .* exit=" | tail -1)
  echo "$s ${out##*tier=}"
done
./check setup >/dev/null 2>&1
