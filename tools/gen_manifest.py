#!/usr/bin/env python3
"""Regenerates /verif/MANIFEST.json from the table below (kept in git so the manifest and
the set of built checks cannot drift apart)."""
import json, os, subprocess
ROOT=os.path.dirname(os.path.dirname(os.path.abspath(__file__)))
props=[json.loads(l) for l in open(os.path.join(ROOT,'properties.jsonl'))]

# id -> (engine, technique, level text, level note, design ref)
CHECKS={
 'C01':('e1_router',
   'explicit-state BFS over client-action and link/router schedule histories of the real Router (stepped through verif hooks), reference broker model as oracle',
   'Exhaustive breadth-first enumeration, up to the stated depth and deviation budget, of all histories of connect/subscribe/unsubscribe/publish(QoS0-2)/release/ack/disconnect actions by 2 publishers and 2 subscribers over overlapping literal, +, #, $ and multi-byte filters/topics, including manual-scheduling episodes in which router turns (the real run_inner) and link drains are interleaved arbitrarily with client actions; every state is checked against a reference broker model (forwards must be an interleaving of prefixes of each subscription\'s owed sequence, with the granted QoS), and from every state the quiescence closure (everybody drains and acknowledges in order) must deliver everything owed.',
   'atomicity assumption: one run_inner / one link step is atomic; bounds per configuration in the evidence file; trusted: reference model engine/src/e1/model.rs and the E4 reference matcher',
   'DESIGN.md sections 3.1 and 4 (C01)'),
 'C12':('e4_topicgrid',
   'bounded-exhaustive enumeration of all (topic, filter) string pairs over a 7/9-symbol alphabet against an independent reference, three code copies',
   'Every ordered pair of strings up to length 4 (quick) / 5 (thorough) over {a,b,/,+,#,$,e-acute} (and a 9-symbol alphabet) is evaluated by all three copies of matches(): no panic and agreement on every pair, equality with a reference written from the MQTT rules on every (valid topic, valid filter) pair; valid_filter/valid_topic/has_wildcards compared with the reference on every string.',
   'input space bounded by alphabet and length; trusted: the 20-line reference in engine/src/e4_topicgrid.rs',
   'DESIGN.md sections 3.4 and 4 (C12)'),
 'C13':('e5_commitlog',
   'explicit-state BFS over append histories of the real CommitLog; every issued cursor x length read in every state, compared with a list',
   'Exhaustive enumeration of all append sequences (entry sizes smaller than / comparable to / larger than a segment) up to the depth bound for segment limits 1-3, and in every reached state every read from every cursor the log has issued so far (closed under reading) with every length of the alphabet, against a list reference; fabricated cursors for the no-panic clause. Within the bounds nothing is sampled.',
   'bounded: depth 6 (quick) / 9 (thorough), 4-5 entry sizes, lengths {0,1,2,3,7,1000}; trusted: the list reference in engine/src/e5_commitlog.rs',
   'DESIGN.md section 3.5 and 4 (C13)'),
}
ENGINES={
 'e1_router':'explicit-state BFS over action histories of the real rumqttd Router, rebuilt by re-execution, states merged by a fingerprint of the router snapshot + harness + monitor state; deviation-bounded manual scheduling',
 'e4_topicgrid':'bounded-exhaustive input grid for the three copies of topic matching/validation against a reference',
 'e5_commitlog':'explicit-state BFS over operation histories of the real CommitLog<T> (rumqttd::segments) with a list as reference model',
}
NOT_YET='check not built yet (work in progress; see DESIGN.md section 4 for the plan)'

hook_commits=[]
try:
    out=subprocess.run(['git','-C','/repo','log','--format=%h %s'],capture_output=True,text=True).stdout
    hook_commits=[l.split()[0] for l in out.splitlines() if l.split(' ',1)[1].startswith('verif hooks')][::-1]
except Exception: pass

m={
 "version":1,
 "setup_cmd":"./check setup",
 "hooks":{
  "guard":"cargo features `verif` and `verif-snapshot` (rumqttd), `verif` (rumqttc); off by default",
  "enable":"the harness crate /verif/engine depends on /repo/rumqttd and /repo/rumqttc by path with these features; ./check rebuilds it from /repo's working tree before every run",
  "baseline_off_cmd":"cd /repo && cargo test --workspace --no-fail-fast --offline",
  "source_commits":hook_commits,
  "add_only":True
 },
 "engines":[{"name":k,"path":"engine/src/%s.rs"%k,"serves_properties":[p for p,c in CHECKS.items() if c[0]==k],"kind_free_text":v} for k,v in ENGINES.items()],
 "checks":[{
   "property_id":pid,
   "quick_cmd":"./check %s quick"%pid,
   "thorough_cmd":"./check %s thorough"%pid,
   "evidence_file":"/verif/evidence/%s.json"%pid,
   "replay_cmd_template":"./check replay {path}",
   "engine":c[0],
   "level_claimed":{"category":"model_checking","text":c[2],"design_ref":c[4]},
   "level_note":c[3],
   "technique":c[1],
  } for pid,c in sorted(CHECKS.items())],
 "notes":"exit 0 = held on everything explored (known findings printed as KNOWN-FINDING lines); exit 1 + VIOLATION line = violation; exit 2 = machinery failure, never a verdict. Known findings live in /verif/known_findings.json.",
 "not_applicable":[{"property_id":p["id"],"reason":NOT_YET} for p in props if p["id"] not in CHECKS]
}
json.dump(m,open(os.path.join(ROOT,'MANIFEST.json'),'w'),indent=1)
print("checks:",sorted(CHECKS),"not_applicable:",len(m["not_applicable"]))
