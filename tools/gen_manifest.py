#!/usr/bin/env python3
"""Regenerates /verif/MANIFEST.json from the table below (kept in git so the manifest and
the set of built checks cannot drift apart)."""
import json, os, subprocess
ROOT=os.path.dirname(os.path.dirname(os.path.abspath(__file__)))
props=[json.loads(l) for l in open(os.path.join(ROOT,'properties.jsonl'))]

# id -> (engine, technique, level text, level note, design ref)
CHECKS={
 'C13':('e5_commitlog',
   'explicit-state BFS over append histories of the real CommitLog; every issued cursor x length read in every state, compared with a list',
   'Exhaustive enumeration of all append sequences (entry sizes smaller than / comparable to / larger than a segment) up to the depth bound for segment limits 1-3, and in every reached state every read from every cursor the log has issued so far (closed under reading) with every length of the alphabet, against a list reference; fabricated cursors for the no-panic clause. Within the bounds nothing is sampled.',
   'bounded: depth 6 (quick) / 9 (thorough), 4-5 entry sizes, lengths {0,1,2,3,7,1000}; trusted: the list reference in engine/src/e5_commitlog.rs',
   'DESIGN.md section 3.5 and 4 (C13)'),
}
ENGINES={
 'e5_commitlog':'explicit-state BFS over operation histories of the real CommitLog<T> (rumqttd::segments) with a list as reference model',
}
NOT_YET='check not built yet (work in progress; see DESIGN.md section 4 for the plan)'

hook_commits=[]
try:
    out=subprocess.run(['git','-C','/repo','log','--format=%h %s'],capture_output=True,text=True).stdout
    hook_commits=[l.split()[0] for l in out.splitlines() if l.split(' ',1)[1].startswith('verif hooks')][::-1]
except Exception: pass

m={
 "version":1,
 "setup_cmd":"./check setup",
 "hooks":{
  "guard":"cargo features `verif` and `verif-snapshot` (rumqttd), `verif` (rumqttc); off by default",
  "enable":"the harness crate /verif/engine depends on /repo/rumqttd and /repo/rumqttc by path with these features; ./check rebuilds it from /repo's working tree before every run",
  "baseline_off_cmd":"cd /repo && cargo test --workspace --no-fail-fast --offline",
  "source_commits":hook_commits,
  "add_only":True
 },
 "engines":[{"name":k,"path":"engine/src/%s.rs"%k,"serves_properties":[p for p,c in CHECKS.items() if c[0]==k],"kind_free_text":v} for k,v in ENGINES.items()],
 "checks":[{
   "property_id":pid,
   "quick_cmd":"./check %s quick"%pid,
   "thorough_cmd":"./check %s thorough"%pid,
   "evidence_file":"/verif/evidence/%s.json"%pid,
   "replay_cmd_template":"./check replay {path}",
   "engine":c[0],
   "level_claimed":{"category":"model_checking","text":c[2],"design_ref":c[4]},
   "level_note":c[3],
   "technique":c[1],
  } for pid,c in sorted(CHECKS.items())],
 "notes":"exit 0 = held on everything explored (known findings printed as KNOWN-FINDING lines); exit 1 + VIOLATION line = violation; exit 2 = machinery failure, never a verdict. Known findings live in /verif/known_findings.json.",
 "not_applicable":[{"property_id":p["id"],"reason":NOT_YET} for p in props if p["id"] not in CHECKS]
}
json.dump(m,open(os.path.join(ROOT,'MANIFEST.json'),'w'),indent=1)
print("checks:",sorted(CHECKS),"not_applicable:",len(m["not_applicable"]))
