#!/bin/bash
./check setup || exit 2
for p in C13 C12 C04 C05 C02 C07 C10 C11 C18 C19 C20 C16 C15 C03 C06 C08 C09 C14 C17 C01; do
  s=$(date +%s)
  ./check $p thorough > out_$p.log 2>&1; rc=$?
  e=$(date +%s)
  echo "$p rc=$rc $((e-s))s $(python3 -c "
import json;d=json.load(open('evidence/$p.json'));c=d['coverage'];print(c['states'],c['transitions'],c['exhaustive'],len(c.get('caps_hit',[])))")"
  grep -E "VIOLATION|code=|KNOWN|MACHINERY" out_$p.log | head -6 | cut -c1-300
done
