#!/bin/bash
# replay_all.sh — every replay of a repaired defect must be silent on the current tree,
# every replay of a known finding must still reproduce it.
cd "$(dirname "$0")/.."
bad=0
for f in replays/fixed/*.json; do
  out=$(./target/release/vcheck replay "$f" 2>&1 | tail -1)
  case "$out" in *"no violation"*) ;; *) echo "FIXED BUT REPRODUCES: $f : $out"; bad=1;; esac
done
for f in replays/known/*.json; do
  out=$(./target/release/vcheck replay "$f" 2>&1 | tail -1)
  case "$out" in *"reproduced"*) ;; *) echo "KNOWN BUT SILENT: $f : $out"; bad=1;; esac
done
echo "replayed $(ls replays/fixed/*.json | wc -l) fixed, $(ls replays/known/*.json | wc -l) known; bad=$bad"
exit $bad
