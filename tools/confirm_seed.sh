#!/bin/bash
# confirm_seed.sh <outdir> <demo-test-command...>
# Confirms a seeded change in a scratch worktree of /repo's HEAD (never in /repo itself):
#   demo passes without the patch, fails with it, and the repository's own suite still passes with it.
# Results go to <outdir>/confirm.log. The worktree is removed afterwards (build cache is kept and shared).
set -u
OUT="$1"; shift
WT=/var/tmp/seedconfirm/wt
export CARGO_TARGET_DIR=/var/tmp/seedconfirm/target
export CARGO_NET_OFFLINE=true
mkdir -p /var/tmp/seedconfirm
exec 9>/var/tmp/seedconfirm/lock; flock 9
git -C /repo worktree remove --force "$WT" >/dev/null 2>&1
git -C /repo worktree add --detach "$WT" HEAD >/dev/null 2>&1 || { echo "cannot create worktree"; exit 2; }
LOG="$OUT/confirm.log"; : > "$LOG"
cd "$WT"
{
echo "== base commit: $(git rev-parse --short HEAD)"
git apply "$OUT/demo.diff" 2>/dev/null || patch -p1 -F3 -s < "$OUT/demo.diff" || { echo "DEMO DIFF DOES NOT APPLY"; }
echo "== demo on unchanged tree: $*"
"$@" > "$OUT/confirm_demo_clean.log" 2>&1; echo "exit=$?"; grep -E "^test result|panicked|FAILED|assert" "$OUT/confirm_demo_clean.log" | head -5
git apply "$OUT/patch.diff" 2>/dev/null || patch -p1 -F3 -s < "$OUT/patch.diff" || { echo "PATCH DOES NOT APPLY"; }
echo "== demo with patch"
"$@" > "$OUT/confirm_demo_patched.log" 2>&1; echo "exit=$?"; grep -E "^test result|panicked|FAILED|assert" "$OUT/confirm_demo_patched.log" | head -8
echo "== repository suite with patch (demo removed)"
git checkout -q -- . ; git clean -fdq; git apply "$OUT/patch.diff" 2>/dev/null || patch -p1 -F3 -s < "$OUT/patch.diff"
unshare -rn sh -c "ip link set lo up; cargo test --workspace --no-fail-fast --offline -j 8" > "$OUT/confirm_suite_patched.log" 2>&1; echo "exit=$?"
grep -E "^test result" "$OUT/confirm_suite_patched.log" | awk '{p+=$4; f+=$6} END {print "passed="p" failed="f}'
} >> "$LOG" 2>&1
cd /
git -C /repo worktree remove --force "$WT" >/dev/null 2>&1
cat "$LOG"
