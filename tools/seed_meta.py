#!/usr/bin/env python3
"""Writes seeded/<id>/meta.json from the table below plus the confirm/detect logs."""
import json, os, re
ROOT=os.path.dirname(os.path.dirname(os.path.abspath(__file__)))
T={
 'C01-a':('C01','forward_device_data: request.cursor advanced after the BufferFull early return','a subscriber whose link does not drain while >= 199 notifications are buffered (BufferFull), followed by the Unschedule/Ready handshake: the batch is read and forwarded twice, out of order'),
 'C02-a':('C02','MqttState::clean() (v4 and v5) also resets state.collision','window full, out-of-order ack, packet-id wrap onto an id still in use (publish parked as collision), then a connection failure before that id is acknowledged: the parked publish disappears'),
 'C03-a':('C03','handle_device_payload: disconnect handled before the parked-waiter notifications are drained','client subscribed to a topic it publishes itself, caught up; one batch with a publish on that topic followed by any connection-closing packet: scheduler.track on a removed tracker panics the router thread'),
 'C04-a':('C04','rumqttd v5 publish len(): width of the property-length prefix derived from the wrong length','broker-encoded MQTT 5 PUBLISH with properties where topic length and property-section length fall into different variable-byte-integer width classes (e.g. topic >= 126 bytes, or properties >= 128 bytes)'),
 'C05-a':('C05','rumqttd v4 check(): maximum-size test only on the incomplete-frame path','an oversize frame that is completely buffered when the decoder first sees its header is accepted; the same bytes split after the fixed header are rejected'),
 'C06-a':('C06','handle_device_payload: for packet in packets.drain(0..) -> while let Some(packet) = packets.pop_front()','a batch in which a connection-closing packet is not the last one: the leftovers stay in the router-wide scratch buffer and are processed, and answered, as the next client\'s packets'),
 'C07-a':('C07','rumqttc v4 handle_incoming_puback: inflight decrement skipped when a collision is resolved','a packet-id collision (out-of-order acks, or subscribes consuming ids) resolved by its PUBACK: the inflight counter stays one too high and the event loop stops taking requests although the window has room'),
 'C08-a':('C08','Outgoing::retransmission_map: first inflight entry per filter wins even when it has no cursor','persistent QoS1/2 subscriber whose oldest unacknowledged entry on a filter is a retained-message replay (no cursor), followed by unacknowledged live messages, then disconnect + resume: the live messages are not re-sent'),
 'C09-a':('C09','Outgoing::free_slots also subtracts unacked_pubrels (PUBCOMP does not reschedule)','QoS 2 backlog > 100, the whole window answered with PUBRECs before any PUBCOMP: after the PUBCOMPs nothing wakes the connection and the rest of the backlog is never forwarded'),
 'C10-a':('C10','Network::readb (v4 and v5): count loop turned into a range loop that fetches one frame too many','>= 10 complete packets readable without blocking when one readb starts: every 10th packet is decoded and dropped (never surfaced, never answered)'),
 'C11-a':('C11','MqttState::clean() (v4) also resets last_puback','unacknowledged QoS1 publishes straddling the id wrap point, failure, resumed replay, second failure before any PUBACK: the next replay is ordered by packet id instead of original order'),
 'C12-a':('C12','rumqttd matches(): exact-match fast path before the $-topic guard','a topic starting with $ and a filter byte-for-byte equal to it: broker says match, MQTT rule and the two client copies say no'),
 'C13-a':('C13','CommitLog::readv: caught-up early return moved before the segment walk','a log-issued cursor exactly one past the last entry of a segment that has been sealed since: reported caught up although later segments hold entries'),
 'C14-a':('C14','DataLog::clean(id, filters) only visits the connection\'s subscription filters ($share/.. paths miss their log)','client with a caught-up shared subscription disconnects, a different client id gets the freed slot, somebody publishes on the topic: the stale parked request delivers to the new occupant (or panics the router if the slot is empty)'),
 'C15-a':('C15','forward_device_data: retained list truncated after the slot count was already reduced','new subscription matching R retained topics with S free delivery slots and S/2 < R <= S (e.g. window 4, 3 topics): only S-R of them are replayed, the rest never'),
 'C16-a':('C16','handle_device_payload: will removal moved to the common disconnect exit when no reason code is set','client with a will whose connection the router closes for a protocol error without an MQTT 5 reason code (unsolicited ack, bad PUBREL, rejected subscribe, non-UTF-8 topic): the will is deleted and never published'),
 'C17-a':('C17','SharedGroup::remove_client removes only the first entry of the client id','a member that joined the group twice (plain re-subscribe) leaves or disconnects while another member remains: a ghost entry stays, the turn lands on it and delivery to the group stops for good'),
 'C02-b':('C02','rumqttc v5 handle_incoming_connack: outgoing_pub resized to the negotiated receive maximum','MQTT 5 client, persistent session; a QoS1/2 publish with packet id p is unacknowledged when the connection fails; the next CONNACK has session present and a receive maximum below p: the replayed publish fails the bounds check, is dropped and the connection closes'),
 'C18-a':('C18','MqttState::clean() no longer resets await_pingresp (reset moved to the error return of outgoing_ping)','a PINGREQ is outstanding when the connection is lost for a reason other than the keep-alive check; after the reconnect the first keep-alive tick reports AwaitPingResp although that broker answers every ping'),
 'C01-b':('C01','DataLog::remove_waiters_for_id rewritten with retain(): && instead of || in the negated predicate','two connections subscribed to the identical filter string, one unsubscribes while the other is caught up (its request parked in the waiters): the other request is discarded too and that subscriber silently receives nothing any more'),
 'C08-b':('C08','handle_new_connection: graveyard.retrieve hoisted above the duplicate-client-id / max-connections checks','a CONNECT with clean session off arrives while the previous connection of that persistent session is still registered (client-id takeover): session read before the old connection saved it, CONNACK session_present=false, subscriptions and unacknowledged messages lost'),
 'C09-b':('C09','handle_device_payload: per-ack reschedule(IncomingAck) replaced by a per-batch flag in the else-branch of force_ack','QoS>0 subscriber paused with a full inflight window and remaining backlog; its acknowledgements reach the router in the same batch as a PINGREQ / SUBSCRIBE / UNSUBSCRIBE / QoS>0 PUBLISH of that client: the IncomingAck wake-up is dropped and the backlog stalls'),
 'C10-b':('C10','MqttState::new (v4 and v5): incoming_pub bit set sized u16::MAX instead of u16::MAX + 1','an inbound QoS 2 publish with packet id exactly 65535: the client panics inside poll(), no PUBREC / PUBCOMP'),
 'C17-b':('C17','forward_device_data: member cursor only overwritten by the group cursor when the group cursor is ahead','a member joins a shared group that still has a backlog (turn holder paused inflight-full, or join and publishes in one event batch) and the turn reaches the joiner: the group cursor jumps over the backlog, which is never delivered'),
 'C06-b':('C06','ack_device_data: acks.drain(..).take(room) with room = 200 - uncollected notifications (drain drops what take() does not yield)','more pending acks than 200 minus the notifications still uncollected in the connection\'s outgoing buffer when it is consumed: subscriber with 150 uncollected forwards sends a batch of 60 QoS 1 publishes, or 250 requests accumulate while paused as busy; the surplus acks are lost'),
 'C07-b':('C07','MqttState::save_pubrel (v4): inflight += 1 removed','MQTT 3.1.1 client, QoS 2 publish past PUBREC, connection lost, session resumed (PUBREL replayed): the resumed flow is not counted in the window; limit+1 unacknowledged, id reused over an open release, later underflow of the counter'),
 'C11-b':('C11','EventLoop::next_request (v4): pending.pop_front() before the throttle sleep (skipped when the throttle is zero)','non-zero pending_throttle, requests carried over a failure, session resumed, and another select! arm (a broker packet, the keep-alive timer) fires during the throttle sleep: the popped request is dropped and never retransmitted'),
 'C16-b':('C16','handle_last_will: last_wills.get(..).cloned() instead of remove(..)','connection 1 of a client id registers a will and ends without DISCONNECT (will fires); connection 2 of the same id registers no will and also ends without DISCONNECT: the stale will is published again'),
 'C18-b':('C18','v5 EventLoop::poll: connection_timeout wraps only network_connect, not the CONNECT/CONNACK exchange','MQTT 5 client, transport connects, the broker never answers the CONNECT (or answers late): poll() stays pending for ever instead of reporting a timeout'),
 'C03-b':('C03','Unsubscribe arm of handle_device_payload: shared_subscriptions.get_mut(filter).unwrap() instead of if let Some','a persistent session that subscribed a $share filter ends while it was the only member (group discarded), is resumed, and sends UNSUBSCRIBE for that filter: the router thread panics'),
 'C04-b':('C04','rumqttd v5 SUBSCRIBE codec: NO_LOCAL and RETAIN_AS_PUBLISHED bit constants swapped (used by its encoder and its decoder)','an MQTT 5 SUBSCRIBE with a filter whose No Local and Retain As Published flags differ crosses the client/broker boundary: the broker decodes the other flag; invisible inside the broker codec'),
 'C05-b':('C05','rumqttd v5 CONNECT will properties: delay interval read with Buf::get_u32 behind a check of the declared property length','a complete, in-limit MQTT 5 CONNECT with the will flag whose frame ends 0-3 bytes after the 0x18 identifier of the will delay interval: decoder panics'),
 'C09-c':('C09','Router::consume: the InflightFull arm returns early and re-tracks only the request that hit the window','one client with two QoS>0 subscriptions that both have a backlog when the window of 100 fills in one consume() pass: the other request is dropped and never served again'),
 'C12-b':('C12','DataLog::matches: pre-filter dropping filters with more separators than the topic before calling matches()','a filter ending in /# that is one level deeper than the topic (a/b/# vs a/b) is already subscribed when the topic is published for the first time: the per-topic filter cache misses it and the publish is routed to no log'),
 'C13-b':('C13','CommitLog::readv: next segment looked up as segments[cursor.0] instead of segments[idx + 1]','retention has discarded at least one segment (head > 0) and one readv starts in a sealed segment and asks for more entries than remain in it: out-of-bounds index / wrong segment'),
 'C14-b':('C14','Scheduler::remove: self.readyqueue.remove(id) added (VecDeque::remove takes a position)','connection k is closed by the router while the ready queue holds more than k ids and index k belongs to another connection: that connection is dequeued while its tracker says Ready and is never scheduled again'),
 'C15-b':('C15','DataLog::insert_to_retained_publishes: entry(topic).or_insert_with(..) instead of insert','a second retained, non-empty publish on a topic that already has a retained message (no clearing in between): new subscribers get the oldest retained message'),
 'C19-b':('C19','handle_new_connection: max_connections check moved before the client-id takeover','the router holds exactly max_connections live connections and a CONNECT reuses the client id of one of them: refused instead of replacing the old connection'),
 'C20-b':('C20','append_to_commitlog: the publisher topic alias is read by copy instead of taken out of the stored properties','MQTT 5 publisher uses a topic alias on a QoS 0/1 publish; an MQTT 5 subscriber for which the broker sets no alias of its own (no alias maximum, or aliases exhausted) receives the publisher alias: beyond its maximum, or re-mapping its table'),
 'C19-a':('C19','handle_auth: unknown user compared against the empty string','listener with a static credentials table (no callback), CONNECT with a user name not in the table and an empty/absent password: admitted'),
 'C20-a':('C20','forward_device_data: properties.insert(default) when adding the subscription identifier','MQTT 5 subscriber that subscribed with a subscription identifier receives a publish that carries properties of its own: all publisher properties are dropped'),
}
for sid,(prop,site,needs) in T.items():
    d=os.path.join(ROOT,'seeded',sid)
    if not os.path.isdir(d): continue
    conf=open(os.path.join(d,'confirm.log')).read() if os.path.exists(os.path.join(d,'confirm.log')) else ''
    det=open(os.path.join(d,'detect.log')).read() if os.path.exists(os.path.join(d,'detect.log')) else ''
    exits=re.findall(r'exit=(\d+)',conf)
    m=re.search(r'passed=(\d+) failed=(\d+)',conf)
    confirmed=len(exits)>=3 and exits[0]=='0' and exits[1]!='0' and m is not None and m.group(2)=='0'
    runs=re.findall(r'== (\S+) seed=\S+ property=(\S+) tier=(\S+) exit=(\d+) \(repo HEAD (\w+)\)',det)
    codes=sorted(set(re.findall(r'code=([\w:]+)',det)))
    meta={
     'seed':sid,'breaks_property':prop,'change':site,'needs_to_manifest':needs,
     'origin':'fresh sub-agent given only the property text and a scratch worktree of /repo',
     'confirmation':{
       'how':'tools/confirm_seed.sh in a scratch worktree of /repo HEAD: demo on the unchanged tree, demo with the patch, repository suite (cargo test --workspace, private network namespace) with the patch',
       'base_commit':(re.search(r'base commit: (\w+)',conf) or [None,None])[1],
       'demo_clean_exit':exits[0] if len(exits)>0 else None,
       'demo_patched_exit':exits[1] if len(exits)>1 else None,
       'suite_with_patch':{'passed':int(m.group(1)),'failed':int(m.group(2))} if m else None,
       'confirmed':confirmed},
     'detection':{'runs':[{'at':r[0],'check':r[1],'tier':r[2],'exit':int(r[3]),'repo_head':r[4]} for r in runs],'oracles_that_fired':codes,
       'detected':any(r[3]=='1' for r in runs)},
    }
    extra=os.path.join(d,'note.txt')
    if os.path.exists(extra): meta['note']=open(extra).read().strip()
    json.dump(meta,open(os.path.join(d,'meta.json'),'w'),indent=1)
    print(sid,'confirmed' if confirmed else 'UNCONFIRMED','detected' if meta['detection']['detected'] else 'NOT-DETECTED',codes[:3])
