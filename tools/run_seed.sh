#!/bin/bash
# run_seed.sh <seed-dir-name> <property> [tier]
# Applies seeded/<name>/patch.diff to /repo's working tree, runs the check, reverts. Never commits.
set -u
NAME="$1"; PROP="$2"; TIER="${3:-quick}"
D=/verif/seeded/$NAME
exec 8>/var/tmp/run_seed.lock; flock 8
cd /repo || exit 2
if [ -n "$(git status --porcelain --untracked-files=no)" ]; then echo "/repo working tree not clean"; exit 2; fi
git apply "$D/patch.diff" 2>/dev/null || patch -p1 -F3 -s < "$D/patch.diff" || { echo "PATCH DOES NOT APPLY"; git checkout -- .; exit 2; }
cd /verif
# the evidence file of the property describes the unchanged tree: keep it, and keep the
# replays of this run apart from those of real runs
cp "evidence/$PROP.json" "/var/tmp/run_seed_evidence_$PROP.json" 2>/dev/null
OUT=$(./check "$PROP" "$TIER" 2>&1); RC=$?
cp "/var/tmp/run_seed_evidence_$PROP.json" "evidence/$PROP.json" 2>/dev/null
mkdir -p "/var/tmp/seed_replays/$NAME" && mv replays/"$PROP"-*.json "/var/tmp/seed_replays/$NAME/" 2>/dev/null
cd /repo && git checkout -- . && git clean -fdq -- rumqttc/src rumqttd/src 2>/dev/null
{
echo "== $(date -u +%FT%TZ) seed=$NAME property=$PROP tier=$TIER exit=$RC (repo HEAD $(git rev-parse --short HEAD))"
echo "$OUT" | grep -E "VIOLATION|code=|KNOWN-FINDING|MACHINERY" | cut -c1-400 | head -8
} | tee -a "$D/detect.log"
exit $RC
