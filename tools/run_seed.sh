#!/bin/bash
# run_seed.sh <seed-dir-name> <property> [tier]
# Applies seeded/<name>/patch.diff to /repo's working tree, runs the check, reverts. Never commits.
set -u
NAME="$1"; PROP="$2"; TIER="${3:-quick}"
D=/verif/seeded/$NAME
exec 8>/var/tmp/run_seed.lock; flock 8
cd /repo || exit 2
if [ -n "$(git status --porcelain --untracked-files=no)" ]; then echo "/repo working tree not clean"; exit 2; fi
git apply "$D/patch.diff" 2>/dev/null || patch -p1 -F3 -s < "$D/patch.diff" || { echo "PATCH DOES NOT APPLY"; git checkout -- .; exit 2; }
cd /verif
OUT=$(./check "$PROP" "$TIER" 2>&1); RC=$?
cd /repo && git checkout -- . && git clean -fdq -- rumqttc/src rumqttd/src 2>/dev/null
{
echo "== $(date -u +%FT%TZ) seed=$NAME property=$PROP tier=$TIER exit=$RC (repo HEAD $(git rev-parse --short HEAD))"
echo "$OUT" | grep -E "VIOLATION|code=|KNOWN-FINDING|MACHINERY" | cut -c1-400 | head -8
} | tee -a "$D/detect.log"
exit $RC
